"""C08 - a peer counts as authenticated only after a valid SASL exchange.
DESIGN.md C08.1 - C08.6."""
from engine.cfg import (Explorer, estr, is_call, is_int, is_member, is_ref, strip_addr, walk,
                        written_lvalues, event_expr, reach_from)
from engine.facts import AnalysisBroken
from engine import lib

AUTH = 'dbus/dbus-auth.c'

COMMANDS = ['AUTH', 'CANCEL', 'DATA', 'BEGIN', 'REJECTED', 'OK', 'ERROR', 'UNKNOWN',
            'NEGOTIATE_UNIX_FD', 'AGREE_UNIX_FD']

# Server state machine of doc/dbus-specification.xml, section "Authentication state diagrams",
# "Server states":
#   WaitingForAuth:  AUTH -> mechanism handling (OK / DATA / REJECTED) ; BEGIN -> terminate auth
#                    conversation, disconnect ; ERROR -> send REJECTED, goto WaitingForAuth ;
#                    anything else -> send ERROR, goto WaitingForAuth
#   WaitingForData:  DATA -> mechanism handling ; BEGIN -> disconnect ; CANCEL, ERROR -> send
#                    REJECTED, goto WaitingForAuth ; anything else -> send ERROR, goto WaitingForData
#   WaitingForBegin: BEGIN -> terminate auth conversation, client is authenticated ;
#                    CANCEL, ERROR -> send REJECTED, goto WaitingForAuth ;
#                    NEGOTIATE_UNIX_FD -> AGREE_UNIX_FD or ERROR, goto WaitingForBegin ;
#                    anything else -> send ERROR, goto WaitingForBegin
SPEC = {
    'handle_server_state_waiting_for_auth': {
        'AUTH': 'mechanism', 'BEGIN': 'disconnect', 'ERROR': 'rejected',
        '*': 'error'},
    'handle_server_state_waiting_for_data': {
        'DATA': 'mechanism', 'BEGIN': 'disconnect', 'CANCEL': 'rejected', 'ERROR': 'rejected',
        '*': 'error'},
    'handle_server_state_waiting_for_begin': {
        'BEGIN': 'authenticated', 'CANCEL': 'rejected', 'ERROR': 'rejected',
        'NEGOTIATE_UNIX_FD': 'agree-or-error', '*': 'error'},
}


def region_summary(fn, start):
    """Callees and goto_state targets reachable from block `start`."""
    blocks = reach_from(fn, [start])
    callees = set()
    targets = set()
    for b in blocks:
        for ev in fn.blocks[b]['events']:
            if ev['ev'] == 'call':
                c = ev['e']
                callees.add(c.get('callee'))
                if c.get('callee') == 'goto_state':
                    t = strip_addr(c['args'][1])
                    targets.add(t['name'] if t is not None and is_ref(t) else estr(c['args'][1]))
    return callees, targets


def classify(callees, targets):
    callees = {c for c in callees if c and not c.startswith('_dbus_verbose')}
    if targets == {'common_state_authenticated'} and callees <= {'goto_state'}:
        return 'authenticated'
    if targets == {'common_state_need_disconnect'} and callees <= {'goto_state'}:
        return 'disconnect'
    if callees == {'send_rejected'} and not targets:
        return 'rejected'
    if callees == {'send_error'} and not targets:
        return 'error'
    if callees <= {'send_agree_unix_fd', 'send_error'} and 'send_agree_unix_fd' in callees and not targets:
        return 'agree-or-error'
    if callees & {'handle_auth', 'process_data'} and not targets and callees <= {'handle_auth', 'process_data'}:
        return 'mechanism'
    return 'other(%s -> %s)' % (','.join(sorted(callees)), ','.join(sorted(targets)))


def c08_1(ck, prog):
    r = ck.rule('C08.1', 'the server\'s (state, command) -> action table equals the specification\'s '
                'server state diagrams; every command is handled in every state', 'DEC',
                breaks='the server accepts BEGIN before OK, treats data as a command, or fails to reject',
                floor=30)
    enum = {}
    for c in COMMANDS:
        v = prog.enums.get('DBUS_AUTH_COMMAND_' + c)
        if v is None:
            raise AnalysisBroken('DBUS_AUTH_COMMAND_%s vanished' % c)
        enum[c] = v
    extra = [n for n in prog.enums if n.startswith('DBUS_AUTH_COMMAND_') and n[len('DBUS_AUTH_COMMAND_'):] not in COMMANDS]
    for n in extra:
        r.violation('enum:%s' % n, 'DBusAuthCommand', AUTH, None,
                    'command %s is not in the specification table of rules/C08.py' % n)
    for hname, spec in SPEC.items():
        fn = prog.fn(hname, AUTH)
        sw = [b for b in fn.blocks.values() if (b.get('term') or {}).get('kind') == 'SwitchStmt']
        if len(sw) != 1 or not is_ref(sw[0]['term']['cond'], 'command'):
            raise AnalysisBroken('%s: expected one switch (command)' % hname)
        cases = {}
        default = None
        for s in sw[0]['succs']:
            if s < 0:
                continue
            sb = fn.blocks[s]
            if sb.get('case'):
                for v in range(sb['case'][0], sb['case'][1] + 1):
                    cases[v] = s
            else:
                default = s
        for c in COMMANDS:
            tgt = cases.get(enum[c], default)
            key = '%s:%s' % (hname.replace('handle_server_state_', ''), c)
            if tgt is None:
                r.violation(key, hname, AUTH, fn.line, 'command %s is not handled (no case, no default)' % c)
                continue
            got = classify(*region_summary(fn, tgt))
            want = spec.get(c, spec['*'])
            if got == want:
                r.ok(key, {'action': got})
            else:
                r.violation(key, hname, AUTH, fn.blocks[tgt].get('label_line') or fn.line,
                            'in %s the server answers %s with "%s"; the specification says "%s"' % (
                                hname.replace('handle_server_state_', ''), c, got, want))
    # the state objects point at their handlers
    for st, h in (('server_state_waiting_for_auth', 'handle_server_state_waiting_for_auth'),
                  ('server_state_waiting_for_data', 'handle_server_state_waiting_for_data'),
                  ('server_state_waiting_for_begin', 'handle_server_state_waiting_for_begin')):
        t = prog.table(st, AUTH)
        f = (t['init'].get('fields') or {}).get('handler') or {}
        if f.get('name') == h:
            r.ok('state:%s' % st)
        else:
            r.violation('state:%s' % st, st, AUTH, t['line'], '%s dispatches to %s' % (st, f.get('name')))
    for st in ('common_state_authenticated', 'common_state_need_disconnect'):
        t = prog.table(st, AUTH)
        f = (t['init'].get('fields') or {}).get('handler') or {}
        if is_int(f, 0):
            r.ok('state:%s:terminal' % st)
        else:
            r.violation('state:%s:terminal' % st, st, AUTH, t['line'], 'end state %s has a handler' % st)
    # send_rejected / send_ok / send_error transitions
    sr = prog.fn('send_rejected', AUTH)
    cal, tg = region_summary(sr, sr.entry)
    if tg == {'common_state_need_disconnect', 'server_state_waiting_for_auth'}:
        r.ok('send_rejected:targets')
    else:
        r.violation('send_rejected:targets', sr.name, AUTH, sr.line, 'send_rejected goes to %s' % sorted(tg))
    so = prog.fn('send_ok', AUTH)
    cal, tg = region_summary(so, so.entry)
    if tg == {'server_state_waiting_for_begin'}:
        r.ok('send_ok:targets')
    else:
        r.violation('send_ok:targets', so.name, AUTH, so.line, 'send_ok goes to %s' % sorted(tg))
    se = prog.fn('send_error', AUTH)
    cal, tg = region_summary(se, se.entry)
    if not tg:
        r.ok('send_error:stays')
    else:
        r.violation('send_error:stays', se.name, AUTH, se.line, 'send_error changes state to %s' % sorted(tg))


EQUALITY = {'_dbus_string_equal'}   # reviewed full-string equality predicates


def server_side(prog):
    roots = [prog.fn(h, AUTH).key for h in SPEC]
    for n in ('handle_server_data_external_mech', 'handle_server_data_cookie_sha1_mech',
              'handle_server_data_anonymous_mech'):
        roots.append(prog.fn(n, AUTH).key)
    seen = set()
    st = list(roots)
    while st:
        k = st.pop()
        if k in seen or k not in prog.funcs:
            continue
        seen.add(k)
        if prog.funcs[k].file == AUTH:
            st.extend(prog.callees(k))
    return {prog.funcs[k].name for k in seen if k in prog.funcs and prog.funcs[k].file == AUTH}


def goto_sites(prog, target):
    out = []
    for f in lib.prod_funcs(prog, {AUTH}):
        for b, i, c in f.calls('goto_state'):
            t = strip_addr(c['args'][1])
            if t is not None and is_ref(t, target):
                out.append((f, c))
    return out


def c08_2(ck, prog):
    r = ck.rule('C08.2', 'the server reaches "authenticated" only through BEGIN in WaitingForBegin, which is '
                'entered only by send_ok, which each mechanism calls only after its proof succeeded and the '
                'authorised identity was filled from the proven one', 'DOM',
                breaks='authentication without (or with a wrong) proof of identity', floor=8)
    srv = server_side(prog)
    for f, c in goto_sites(prog, 'common_state_authenticated'):
        key = 'authenticated<-%s' % f.name
        if f.name == 'handle_server_state_waiting_for_begin':
            r.ok(key)
        elif f.name in srv:
            r.violation(key, f.name, AUTH, c['line'], 'server-side function %s enters the authenticated state' % f.name)
        else:
            r.ok(key, 'client side')
    for f, c in goto_sites(prog, 'server_state_waiting_for_begin'):
        key = 'waiting_for_begin<-%s' % f.name
        if f.name == 'send_ok':
            r.ok(key)
        elif f.name == 'send_agree_unix_fd':
            # re-entry: called only from the NEGOTIATE_UNIX_FD case of WaitingForBegin itself
            r.ok(key, 're-enters WaitingForBegin from WaitingForBegin')
            lib.who_calls(prog, r, 'send_agree_unix_fd', {'handle_server_state_waiting_for_begin'})
        else:
            r.violation(key, f.name, AUTH, c['line'], '%s enters WaitingForBegin without send_ok' % f.name)
    def state_init_ok(f, how, rhs):
        t = strip_addr(rhs) if isinstance(rhs, dict) else None
        if f.name == 'goto_state':
            return None if is_ref(rhs, 'state') else 'goto_state stores %s' % estr(rhs)
        if f.name == '_dbus_auth_server_new':
            return None if is_ref(t or {}, 'server_state_waiting_for_auth') else \
                'a new server starts in %s instead of WaitingForAuth' % estr(rhs)
        if f.name == '_dbus_auth_client_new':
            return None if is_ref(t or {}, 'client_state_need_send_auth') else \
                'a new client starts in %s' % estr(rhs)
        return None
    lib.who_writes_field(prog, r, 'DBusAuth', 'state', {'goto_state', '_dbus_auth_server_new',
                                                       '_dbus_auth_client_new'}, value_ok=state_init_ok)
    lib.who_calls(prog, r, 'send_ok', {'handle_server_data_external_mech': 'EXTERNAL',
                                       'sha1_handle_second_client_response': 'DBUS_COOKIE_SHA1',
                                       'handle_server_data_anonymous_mech': 'ANONYMOUS'})
    sink = lambda ev, ctx: 'send_ok' if ev['ev'] == 'call' and ev['e'].get('callee') == 'send_ok' else None

    def fld(e, name):
        return is_member(e, name, 'DBusAuth')
    # EXTERNAL
    ext = prog.fn('handle_server_data_external_mech', AUTH)
    guards = [
        lib.Guard('credentials not anonymous', lambda c, ctx: c.get('callee') == '_dbus_credentials_are_anonymous'
                  and fld(c['args'][0], 'credentials'), expect=False),
        lib.Guard('desired identity not anonymous', lambda c, ctx: c.get('callee') == '_dbus_credentials_are_anonymous'
                  and fld(c['args'][0], 'desired_identity'), expect=False),
        lib.Guard('socket credentials are a superset of the desired identity',
                  lambda c, ctx: c.get('callee') == '_dbus_credentials_are_superset'
                  and fld(c['args'][0], 'credentials') and fld(c['args'][1], 'desired_identity')),
        lib.Guard('authorized_identity := desired_identity',
                  lambda c, ctx: c.get('callee') == '_dbus_credentials_add_credentials'
                  and fld(c['args'][0], 'authorized_identity') and fld(c['args'][1], 'desired_identity')),
    ]
    lib.must_precede(ext, r, sink, guards, key_prefix='EXTERNAL:')
    # desired identity is rebuilt (cleared, then filled from the identity string or the socket credentials)
    def ext_desired(prog, r):
        seen = [0]

        def on_event(user, ev, ctx):
            if ev['ev'] == 'call':
                c = ev['e']
                cal = c.get('callee')
                if cal == '_dbus_credentials_clear' and fld(c['args'][0], 'desired_identity'):
                    return 'cleared'
                if cal in ('_dbus_credentials_add_credentials', '_dbus_credentials_add_from_user') \
                        and fld(c['args'][0], 'desired_identity'):
                    src = c['args'][1]
                    okc = (cal == '_dbus_credentials_add_credentials' and fld(src, 'credentials')) or \
                          (cal == '_dbus_credentials_add_from_user' and fld(strip_addr(src) or {}, 'identity'))
                    if user != 'cleared' or not okc:
                        ctx.report('desired identity is filled from %s without being cleared first' % estr(src),
                                   c['line'], key='desired')
                    return 'filled'
                if cal == 'send_ok':
                    seen[0] += 1
                    if user != 'filled':
                        ctx.report('send_ok reached without a freshly built desired identity', c['line'], key='stale')
            return user
        ex = Explorer(ext, init='start', on_event=on_event, track=None).run()
        if ex.reports:
            r.from_reports(ex.reports, keyfn=lambda k, rep: 'EXTERNAL:desired-identity:%s' % k)
        elif seen[0]:
            r.ok('EXTERNAL:desired-identity-rebuilt')
    ext_desired(prog, r)
    # DBUS_COOKIE_SHA1
    sha = prog.fn('sha1_handle_second_client_response', AUTH)
    cmp_calls = [c for b, i, c in sha.calls() if any(is_ref(strip_addr(a) or {}, 'client_hash') for a in c['args'])
                 and any(is_ref(strip_addr(a) or {}, 'correct_hash') for a in c['args'])]
    for c in cmp_calls:
        if c.get('callee') not in EQUALITY:
            r.violation('SHA1:comparator', sha.name, AUTH, c['line'],
                        'the client\'s hash is compared with the correct hash by %s, which is not a reviewed '
                        'full-equality predicate (%s)' % (c.get('callee'), ', '.join(sorted(EQUALITY))))
    guards = [
        lib.Guard('client hash equals correct hash',
                  lambda c, ctx: c.get('callee') in EQUALITY
                  and {estr(strip_addr(a) or {}) for a in c['args']} == {'client_hash', 'correct_hash'}),
        lib.Guard('correct hash computed from server challenge, client challenge and cookie',
                  lambda c, ctx: c.get('callee') == 'sha1_compute_hash' and fld(c['args'][1], 'cookie_id')
                  and fld(strip_addr(c['args'][2]) or {}, 'challenge')
                  and is_ref(strip_addr(c['args'][3]) or {}, 'client_challenge')
                  and is_ref(strip_addr(c['args'][4]) or {}, 'correct_hash')),
        lib.Guard('correct hash is not empty',
                  lambda c, ctx: c.get('callee') == '_dbus_string_get_length'
                  and is_ref(strip_addr(c['args'][0]) or {}, 'correct_hash'), expect=True),
        lib.Guard('authorized_identity := desired_identity',
                  lambda c, ctx: c.get('callee') == '_dbus_credentials_add_credentials'
                  and fld(c['args'][0], 'authorized_identity') and fld(c['args'][1], 'desired_identity')),
    ]
    lib.must_precede(sha, r, sink, guards, key_prefix='SHA1:')
    # client_hash is the whole rest of the response
    okh = False
    for b, i, c in sha.calls('_dbus_string_copy_len'):
        if is_ref(strip_addr(c['args'][3]) or {}, 'client_hash') and lib.arg_is_param(c, 0, 'data'):
            ln = c['args'][2]
            if ln.get('k') == 'bin' and ln['op'] == '-' and is_call(ln['l'], '_dbus_string_get_length') \
                    and lib.arg_is_param(ln['l'], 0, 'data') and same_ref(ln['r'], c['args'][1]):
                okh = True
    if okh:
        r.ok('SHA1:client-hash-is-whole-remainder')
    else:
        r.violation('SHA1:client-hash-is-whole-remainder', sha.name, AUTH, sha.line,
                    'client_hash is not copied as data[i .. length)')
    # the compute function hashes challenge:client:cookie
    ch = prog.fn('sha1_compute_hash', AUTH)
    if ch.calls('_dbus_sha_compute') and ch.calls('_dbus_keyring_get_hex_key'):
        r.ok('SHA1:compute-uses-keyring-and-sha')
    else:
        r.violation('SHA1:compute-uses-keyring-and-sha', ch.name, AUTH, ch.line,
                    'sha1_compute_hash no longer hashes the keyring cookie')
    # ANONYMOUS is reachable only through find_mech(allowed_mechs)
    ha = prog.fn('handle_auth', AUTH)
    okf = False
    for b, i, ev in ha.events():
        for lhs, how, rhs in written_lvalues(ev):
            if is_member(lhs, 'mech', 'DBusAuth') and how == '=':
                if is_call(rhs, 'find_mech') and is_member(rhs['args'][1], 'allowed_mechs', 'DBusAuth'):
                    okf = True
                elif not is_int(rhs, 0):
                    r.violation('handle_auth:mech', ha.name, AUTH, ev['line'],
                                'auth->mech is set from %s, not find_mech(name, allowed_mechs)' % estr(rhs))
    if okf:
        r.ok('handle_auth:mech-from-allowed-list')
    fm = prog.fn('find_mech', AUTH)
    if fm.calls('_dbus_string_array_contains'):
        r.ok('find_mech:filters-allowed')
    else:
        r.violation('find_mech:filters-allowed', fm.name, AUTH, fm.line,
                    'find_mech no longer filters by the allowed mechanism list')
    # anonymous: must not copy a user identity
    an = prog.fn('handle_server_data_anonymous_mech', AUTH)
    bad = [c for b, i, c in an.calls('_dbus_credentials_add_credentials') if fld(c['args'][0], 'authorized_identity')]
    if bad:
        r.violation('ANONYMOUS:identity', an.name, AUTH, bad[0]['line'],
                    'the ANONYMOUS mechanism copies an identity into authorized_identity')
    else:
        r.ok('ANONYMOUS:no-user-identity')


def same_ref(a, b):
    return is_ref(a) and is_ref(b) and a.get('id') == b.get('id')


def c08_3(ck, prog):
    r = ck.rule('C08.3', 'a rejection clears the identity of the abandoned mechanism and counts towards the '
                'failure limit before the state changes', 'TS',
                breaks='an identity proven by an abandoned mechanism survives into a later one; unbounded retries',
                floor=5)
    sm = prog.fn('shutdown_mech', AUTH)
    for fldname in ('authorized_identity', 'desired_identity'):
        ok = any(is_member(c['args'][0], fldname, 'DBusAuth') for b, i, c in sm.calls('_dbus_credentials_clear'))
        # must be unconditional: in a block that dominates the exit -> simply: on every path
        if ok:
            res = every_path_calls(sm, lambda c: c.get('callee') == '_dbus_credentials_clear'
                                   and is_member(c['args'][0], fldname, 'DBusAuth'))
            ok = res
        key = 'shutdown_mech:clears-%s' % fldname
        if ok:
            r.ok(key)
        else:
            r.violation(key, sm.name, AUTH, sm.line,
                        'shutdown_mech does not clear auth->%s on every path: credentials established by an '
                        'abandoned mechanism stay visible' % fldname)
    ok = any(is_member(strip_addr(c['args'][0]) or {}, 'identity', 'DBusAuth') and is_int(c['args'][1], 0)
             for b, i, c in sm.calls('_dbus_string_set_length'))
    (r.ok if ok else (lambda k: r.violation(k, sm.name, AUTH, sm.line, 'identity string not reset')))(
        'shutdown_mech:resets-identity-string')
    sr = prog.fn('send_rejected', AUTH)

    def on_event(user, ev, ctx):
        shut, counted = user
        if ev['ev'] == 'call':
            c = ev['e']
            if c.get('callee') == 'shutdown_mech':
                shut = True
            if c.get('callee') == 'goto_state':
                if not (shut and counted):
                    ctx.report('state changes before the mechanism was shut down and the failure counted',
                               c['line'], key='order')
                t = strip_addr(c['args'][1])
                lim = ctx.atom('limit')
                if is_ref(t or {}, 'common_state_need_disconnect') and lim is not False:
                    ctx.report('disconnects although failures < max_failures', c['line'], key='early')
                if is_ref(t or {}, 'server_state_waiting_for_auth') and lim is not True:
                    ctx.report('keeps accepting AUTH although failures >= max_failures', c['line'], key='unbounded')
        for lhs, how, rhs in written_lvalues(ev):
            if is_member(lhs, 'failures', 'DBusAuthServer'):
                if how in ('+=', '++') and (rhs is None or is_int(rhs, 1)):
                    counted = True
                else:
                    ctx.report('failures is written with %s %s' % (how, estr(rhs)), ev['line'], key='write')
        return (shut, counted)

    def on_exit(user, ctx, ret, ev):
        v = ctx.const_of(ret)
        if v is not None and v != 0 and not (user[0] and user[1]):
            ctx.report('send_rejected succeeds without shutting the mechanism down / counting the failure',
                       ev['line'], key='success')

    def akey(atom, resolve):
        if atom[0] == 'cmp' and atom[1] == '<' and is_member(atom[2], 'failures', 'DBusAuthServer') \
                and is_member(atom[3], 'max_failures', 'DBusAuthServer'):
            return 'limit'       # True: failures < max
        return None
    ex = Explorer(sr, init=(False, False), on_event=on_event, on_exit=on_exit, atom_key=akey, track='auto').run()
    if ex.reports:
        r.from_reports(ex.reports, keyfn=lambda k, rep: 'send_rejected:%s' % k)
    else:
        r.ok('send_rejected:shutdown+count-before-state-change')
    lib.who_writes_field(prog, r, 'DBusAuthServer', 'failures', {'send_rejected', '_dbus_auth_server_new'},
                         value_ok=lambda f, how, rhs: None if (f.name == 'send_rejected' and how in ('+=', '++'))
                         or (f.name != 'send_rejected' and how == '=' and is_int(rhs, 0))
                         else 'failures written with %s %s in %s' % (how, estr(rhs), f.name))
    lib.who_writes_field(prog, r, 'DBusAuthServer', 'max_failures', {'_dbus_auth_server_new'})


def every_path_calls(fn, pred):
    ok = [True]

    def on_event(user, ev, ctx):
        if ev['ev'] == 'call' and pred(ev['e']):
            return True
        return user

    def on_exit(user, ctx, ret, ev):
        if not user:
            ok[0] = False
    Explorer(fn, init=False, on_event=on_event, on_exit=on_exit, track=None).run()
    return ok[0]


def c08_4(ck, prog):
    r = ck.rule('C08.4', 'the handshake buffers at most MAX_BUFFER bytes: every command is processed only '
                'after the incoming and outgoing buffers were checked in the same iteration', 'DOM',
                breaks='an unauthenticated peer makes the server buffer unbounded data', floor=1)
    fn = prog.fn('_dbus_auth_do_work', AUTH)
    # the bound itself (however it is spelled: macro, enum, literal) is read off the comparisons below as the
    # compiler folded it; it must not exceed 16 KiB

    def akey(atom, resolve):
        if atom[0] == 'cmp' and atom[1] == '<=':
            c = resolve(atom[2])
            if c is not None and c.get('callee') == '_dbus_string_get_length' and is_int(atom[3]):
                s = strip_addr(c['args'][0])
                if is_member(s or {}, None, 'DBusAuth') and s['field'] in ('incoming', 'outgoing'):
                    return ('within', s['field'], atom[3]['v'])
        return None
    n = [0]

    def on_event(user, ev, ctx):
        if ev['ev'] == 'call' and ev['e'].get('callee') == 'process_command':
            n[0] += 1
            at = ctx.atoms()
            for f in ('incoming', 'outgoing'):
                ks = [k for k in at if k[0] == 'within' and k[1] == f and at[k] is True]
                if not ks:
                    ctx.report('process_command runs without auth->%s having been checked against MAX_BUFFER' % f,
                               ev['line'], key=f)
                elif ks[0][2] > 16384:
                    ctx.report('buffer bound for %s is %d' % (f, ks[0][2]), ev['line'], key=f + '-bound')
            return 'ran'
        return user
    # facts must not survive an iteration: clear on process_command (it consumes/produces bytes)
    class Ex(Explorer):
        def _apply_event(self, ev, env):
            env = super()._apply_event(ev, env)
            if ev['ev'] == 'call' and ev['e'].get('callee') == 'process_command':
                env = {k: v for k, v in env.items() if k[0] != 'atom'}
            return env
    ex = Ex(fn, init='start', on_event=on_event, atom_key=akey, track='auto').run()
    if not n[0]:
        raise AnalysisBroken('_dbus_auth_do_work no longer calls process_command')
    if ex.reports:
        r.from_reports(ex.reports, keyfn=lambda k, rep: '_dbus_auth_do_work:%s' % k)
    else:
        r.ok('_dbus_auth_do_work:bounded')


def c08_5(ck, prog):
    r = ck.rule('C08.5', 'no message byte is read or written before the transport is authenticated, and the '
                'authenticated flag is set only from the AUTHENTICATED auth state plus server-side admission',
                'DOM', breaks='pre-authentication bytes are parsed as messages; a rejected identity talks to the bus',
                floor=6)
    ts = 'dbus/dbus-transport-socket.c'
    g = lambda: lib.Guard('_dbus_transport_try_to_authenticate(transport)',
                          lambda c, ctx: c.get('callee') == '_dbus_transport_try_to_authenticate'
                          and lib.arg_is_param(c, 0, 'transport'))
    rd = prog.fn('do_reading', ts)
    lib.must_precede(rd, r, lambda ev, ctx: ev['e']['callee'] if ev['ev'] == 'call' and ev['e'].get('callee') in (
        '_dbus_message_loader_get_buffer', '_dbus_read_socket', '_dbus_read_socket_with_unix_fds',
        '_dbus_transport_queue_messages') else None, [g()])
    wr = prog.fn('do_writing', ts)
    lib.must_precede(wr, r, lambda ev, ctx: ev['e']['callee'] if ev['ev'] == 'call' and ev['e'].get('callee') in (
        '_dbus_connection_get_message_to_send', '_dbus_message_get_network_data', '_dbus_write_socket_two',
        '_dbus_write_socket_with_unix_fds_two', '_dbus_write_socket') else None, [g()])
    lib.who_calls(prog, r, '_dbus_message_get_network_data', {'do_writing', '_dbus_transport_debug_pipe_do_writing'})
    tr = 'dbus/dbus-transport.c'
    ta = prog.fn('_dbus_transport_try_to_authenticate', tr)
    lib.who_writes_field(prog, r, 'DBusTransport', 'authenticated',
                         {'_dbus_transport_try_to_authenticate', '_dbus_transport_init_base'},
                         value_ok=lambda f, how, rhs: None if (f.name == '_dbus_transport_init_base' and is_int(rhs, 0))
                         or (f.name == '_dbus_transport_try_to_authenticate' and is_ref(rhs, 'maybe_authenticated'))
                         else 'transport->authenticated written with %s in %s' % (estr(rhs), f.name))
    AUTHD = prog.enums.get('DBUS_AUTH_STATE_AUTHENTICATED')
    if AUTHD is None:
        raise AnalysisBroken('DBUS_AUTH_STATE_AUTHENTICATED vanished')
    work = {c['id'] for b, i, c in ta.calls('_dbus_auth_do_work')}
    adm = {c['id'] for b, i, c in ta.calls(('auth_via_unix_user_function', 'auth_via_windows_user_function',
                                            'auth_via_default_rules'))}
    if not work or len(adm) < 2:
        raise AnalysisBroken('try_to_authenticate: anchors vanished')
    nset = [0]

    # values _dbus_auth_do_work can return (all of its returns are constants, checked below)
    dwf = prog.fn('_dbus_auth_do_work', AUTH)
    dw_rets = [ev['e'] for b, i, ev in dwf.events() if ev['ev'] == 'return']
    dw_vals = {x['v'] for x in dw_rets if is_int(x)}
    closed = bool(dw_rets) and all(is_int(x) for x in dw_rets)
    sw_cases = set()
    for bid, blk in ta.blocks.items():
        if blk.get('case'):
            sw_cases.update(range(blk['case'][0], blk['case'][1] + 1))
    from engine.cfg import INFEASIBLE

    def on_edge(user, bid, idx, atom, sense, ctx):
        if isinstance(idx, tuple) and atom and atom[0] == 'switch' and is_call(atom[1], '_dbus_auth_do_work'):
            if idx[0] == 'default' and closed and dw_vals <= sw_cases:
                return INFEASIBLE      # every value do_work can return has its own case
            if idx[0] == 'case' and closed and not any(idx[1] <= v <= idx[2] for v in dw_vals):
                return INFEASIBLE      # a case for a value do_work never returns (DBUS_AUTH_STATE_INVALID)
            if idx[0] == 'case' and idx[1] <= AUTHD <= idx[2]:
                return user | {'auth-state'}
            return user - {'auth-state'}
        return user

    def on_event(user, ev, ctx):
        for lhs, how, rhs in written_lvalues(ev):
            if is_member(lhs, 'authenticated', 'DBusTransport') and how == '=':
                nset[0] += 1
                v = ctx.const_of(rhs)
                if v is None or v != 0:
                    if 'auth-state' not in user:
                        ctx.report('transport->authenticated can become TRUE without the auth conversation being '
                                   'in state AUTHENTICATED', ev['line'], key='state')
                    srv = None
                    for k, val in ctx.atoms().items():
                        if k == 'is_server':
                            srv = val
                    if srv is not False:
                        # some admission function answered TRUE on this path (whatever variable held it)
                        okadm = any(ctx.result_known(cid) is True for cid in adm)
                        if not okadm:
                            ctx.report('a server-side transport becomes authenticated without an admission '
                                       'function having allowed the identity', ev['line'], key='admission')
        return user

    def akey(atom, resolve):
        if atom[0] == 'truthy' and is_member(atom[1], 'is_server', 'DBusTransport'):
            return 'is_server'
        return None
    ex = Explorer(ta, init=frozenset(), on_event=on_event, on_edge=on_edge, atom_key=akey,
                  track={'maybe_authenticated', 'allow'}, calls=set(), cap=200000).run()
    if not nset[0]:
        raise AnalysisBroken('try_to_authenticate no longer sets transport->authenticated')
    if ex.reports:
        r.from_reports(ex.reports, keyfn=lambda k, rep: 'try_to_authenticate:%s' % k)
    else:
        r.ok('try_to_authenticate:flag-origin', {'states': ex.nstates})
    # do_work reports AUTHENTICATED only in the authenticated state
    dw = prog.fn('_dbus_auth_do_work', AUTH)

    def akey2(atom, resolve):
        if atom[0] == 'cmp' and atom[1] == '==':
            for l, rr in ((atom[2], atom[3]), (atom[3], atom[2])):
                if is_member(l, 'state', 'DBusAuth') and is_ref(strip_addr(rr) or {}, 'common_state_authenticated'):
                    return 'authed'
        return None

    def on_exit2(user, ctx, ret, ev):
        v = ctx.const_of(ret)
        if v == AUTHD and ctx.atom('authed') is not True:
            ctx.report('_dbus_auth_do_work reports AUTHENTICATED without auth->state == authenticated',
                       ev['line'], key='report')
    ex2 = Explorer(dw, on_exit=on_exit2, atom_key=akey2, track='auto').run()
    if ex2.reports:
        r.from_reports(ex2.reports, keyfn=lambda k, rep: '_dbus_auth_do_work:%s' % k)
    else:
        r.ok('_dbus_auth_do_work:AUTHENTICATED-iff-state')


def c08_6(ck, prog):
    r = ck.rule('C08.6', 'the command-name table maps each specification command word to its enumerator, '
                'once', 'TAB', floor=9)
    t = prog.table('auth_command_names', AUTH)
    want = {'AUTH': 'AUTH', 'CANCEL': 'CANCEL', 'DATA': 'DATA', 'BEGIN': 'BEGIN', 'REJECTED': 'REJECTED',
            'OK': 'OK', 'ERROR': 'ERROR', 'NEGOTIATE_UNIX_FD': 'NEGOTIATE_UNIX_FD',
            'AGREE_UNIX_FD': 'AGREE_UNIX_FD'}
    seen = {}
    for el in t['init'].get('elems', []):
        f = el.get('fields') or {}
        nm = (f.get('name') or {}).get('v')
        cmd = f.get('command') or {}
        key = 'name:%s' % nm
        if nm in seen:
            r.violation(key, 'auth_command_names', AUTH, t['line'], 'command %s listed twice' % nm)
            continue
        seen[nm] = cmd.get('v')
        w = want.get(nm)
        if w is None:
            r.violation(key, 'auth_command_names', AUTH, t['line'], 'unknown command word %s' % nm)
        elif cmd.get('v') == prog.enums['DBUS_AUTH_COMMAND_' + w]:
            r.ok(key)
        else:
            r.violation(key, 'auth_command_names', AUTH, t['line'],
                        'command word %s maps to %s' % (nm, cmd.get('name') or cmd.get('v')))
    for nm in want:
        if nm not in seen:
            r.violation('name:%s' % nm, 'auth_command_names', AUTH, t['line'], 'command %s missing' % nm)
    lk = prog.fn('lookup_command_from_name', AUTH)
    rets = [ev for b, i, ev in lk.events() if ev['ev'] == 'return']
    if any(is_int(ev['e'], prog.enums['DBUS_AUTH_COMMAND_UNKNOWN']) for ev in rets):
        r.ok('lookup:unknown-fallback')
    else:
        r.violation('lookup:unknown-fallback', lk.name, AUTH, lk.line, 'unrecognised words do not map to UNKNOWN')


def c08_7(ck, prog):
    r = ck.rule('C08.7', 'the anonymous switch has one source: only the <allow_anonymous/> element sets it, an '
                'included file hands on exactly its own value of each option, the context copies the parser\'s '
                'value and every accepted connection gets the context\'s value', 'WHO',
                breaks='ANONYMOUS peers are admitted on a bus whose configuration never enabled anonymous access',
                floor=10)
    CP = 'bus/config-parser.c'
    enum = prog.enums.get('ELEMENT_ALLOW_ANONYMOUS')
    if enum is None:
        raise AnalysisBroken('ELEMENT_ALLOW_ANONYMOUS vanished')
    # 1. writers of BusConfigParser.allow_anonymous
    sb = prog.fn('start_busconfig_child', CP)

    def akey(atom, resolve):
        if atom[0] == 'cmp' and atom[1] == '==' and is_ref(atom[2], 'element_type') and is_int(atom[3]):
            return ('etype', atom[3]['v'], frozenset([atom[2]['id']]))
        return None
    seen = [0]

    def on_event(user, ev, ctx):
        for lhs, how, rhs in written_lvalues(ev):
            if is_member(lhs, 'allow_anonymous', 'BusConfigParser'):
                seen[0] += 1
                ok = any(k[0] == 'etype' and k[1] == enum and v is True for k, v in ctx.atoms().items())
                if not ok or not is_int(rhs) or rhs['v'] != 1:
                    ctx.report('parser->allow_anonymous is set (%s) outside the <allow_anonymous> element branch'
                               % estr(rhs), ev['line'], key='element-branch')
        return user
    ex = Explorer(sb, on_event=on_event, atom_key=akey, track=None, cap=400000).run()
    if not seen[0]:
        r.violation('start_busconfig_child:sets-allow_anonymous', sb.name, CP, sb.line,
                    'the <allow_anonymous> element no longer sets parser->allow_anonymous')
    elif ex.reports:
        r.from_reports(ex.reports, keyfn=lambda k, rep: 'start_busconfig_child:%s' % k)
    else:
        r.ok('start_busconfig_child:allow_anonymous-only-under-its-element')
    lib.who_writes_field(prog, r, 'BusConfigParser', 'allow_anonymous', {'start_busconfig_child', 'merge_included'})
    # 2. merge_included: every option of the including parser is fed from the same option of the included one
    mi = prog.fn('merge_included', CP)
    p0, p1 = mi.params[0]['id'], mi.params[1]['id']
    preds = mi.preds()

    def fields_of(e, pid):
        return {x['field'] for x in walk(e) if x.get('k') == 'member' and x.get('rec') == 'BusConfigParser'
                and is_ref(x.get('base')) and x['base'].get('id') == pid}
    n = 0

    def controlling(bid):
        b = bid
        ctl = set()
        hops = 0
        while hops < 4:
            ps = preds.get(b, [])
            if len(ps) != 1:
                t = mi.blocks[b].get('term')       # loop header: a while condition controls its own body
                if t and t.get('cond') is not None:
                    ctl |= fields_of(t['cond'], p1)
                    for ev in mi.blocks[b]['events']:
                        if ev['ev'] == 'assign':
                            ctl |= fields_of(ev['e'], p1)
                break
            b = ps[0]
            t = mi.blocks[b].get('term')
            if t and t.get('cond') is not None:
                ctl |= fields_of(t['cond'], p1)
                for ev in mi.blocks[b]['events']:
                    if ev['ev'] == 'assign':
                        ctl |= fields_of(ev['e'], p1)
                if ctl:
                    break
            hops += 1
        return ctl
    for bid, blk in mi.blocks.items():
        for ev in blk['events']:
            pairs = []
            if ev['ev'] == 'assign':
                t = fields_of(ev['e']['l'], p0)
                if t:
                    pairs.append((t, fields_of(ev['e']['r'], p1) | controlling(bid)))
            elif ev['ev'] == 'call':
                t = set().union(*[fields_of(a, p0) for a in ev['e']['args']]) if ev['e']['args'] else set()
                if t:
                    sfs = set().union(*[fields_of(a, p1) for a in ev['e']['args']])
                    pairs.append((t, sfs or controlling(bid)))
            for tgt, src in pairs:
                for f in sorted(tgt):
                    n += 1
                    key = 'merge_included:%s' % f
                    if f in src and not (src - {f}):
                        r.ok(key, {'site': '%s:%d' % (CP, ev['line'])})
                    else:
                        r.violation(key, mi.name, CP, ev['line'], 'parser->%s is fed from included->%s' % (
                            f, ', '.join(sorted(src)) or '(nothing)'))
    if n < 8:
        raise AnalysisBroken('merge_included: only %d merged options recognised' % n)
    # ... and no option an element handler can set is forgotten by the merge
    def owner_field(lhs):
        x = lhs
        while x is not None and x.get('k') == 'member' and x.get('rec') != 'BusConfigParser':
            x = x.get('base')
        if x is not None and x.get('k') == 'member' and x.get('rec') == 'BusConfigParser':
            return x['field']
        inner = strip_addr(lhs) if lhs is not None else None
        return owner_field(inner) if inner is not None else None
    HANDLERS = ('start_busconfig_child', 'bus_config_parser_content', 'servicehelper_path', 'include_dir')
    parsed = {}
    for hn in HANDLERS:
        try:
            hf = prog.fn(hn, CP)
        except AnalysisBroken:
            continue
        for b, i, ev in hf.events():
            for lhs, how, rhs in written_lvalues(ev):
                fld = owner_field(lhs)
                if fld:
                    parsed.setdefault(fld, hn)
    merged = set()
    for b, i, ev in mi.events():
        for lhs, how, rhs in written_lvalues(ev):
            x = lhs
            while x is not None and x.get('k') == 'member' and not (is_ref(x.get('base')) and x['base'].get('id') == p0):
                x = x.get('base')
            inner = strip_addr(lhs) if x is None else None
            if x is None and inner is not None:
                x = inner
                while x is not None and x.get('k') == 'member' and not (is_ref(x.get('base')) and x['base'].get('id') == p0):
                    x = x.get('base')
            if x is not None and x.get('k') == 'member':
                merged.add(x['field'])
        if ev['ev'] == 'call':
            for a in ev['e']['args']:
                merged |= fields_of(a, p0)
    NOT_MERGED_REVIEWED = {'syslog': 'never merged in the reference tree: <syslog/> only counts in the top-level file',
                           'basedir': 'a property of the file being parsed, not an option',
                           'stack': 'parser state', 'limits': 'handed back by include_file'}
    for fld, hn in sorted(parsed.items()):
        key = 'merge_included:covers-%s' % fld
        if fld in merged or fld in NOT_MERGED_REVIEWED:
            r.ok(key)
        else:
            r.violation(key, mi.name, CP, mi.line,
                        'parser->%s can be set by %s while an included file is parsed, but merge_included does not hand '
                        'it on: the option is silently ignored when it is written in an included file (for <auth> that '
                        'leaves the mechanism list empty, which means every mechanism is allowed)' % (fld, hn))
    # 3. getter, context, connection
    g = prog.fn('bus_config_parser_get_allow_anonymous', CP)
    rets = [ev.get('e') for b, i, ev in g.events() if ev['ev'] == 'return']
    if rets and all(x is not None and is_member(x, 'allow_anonymous', 'BusConfigParser') for x in rets):
        r.ok('bus_config_parser_get_allow_anonymous:returns-field')
    else:
        r.violation('bus_config_parser_get_allow_anonymous:returns-field', g.name, CP, g.line,
                    'the getter does not return parser->allow_anonymous')
    lib.who_writes_field(prog, r, 'BusContext', 'allow_anonymous', {'process_config_first_time_only'},
                         value_ok=lambda f, how, rhs: None if is_call(rhs, 'bus_config_parser_get_allow_anonymous')
                         else 'context->allow_anonymous is set from %s, not from the parser' % estr(rhs))
    sites = [(f, c) for f, b, i, c in prog.call_sites('dbus_connection_set_allow_anonymous') if prog.is_production(f)
             and f.file.startswith('bus/')]
    if not sites:
        r.violation('bus:set_allow_anonymous', 'new_connection_callback', 'bus/bus.c', None,
                    'accepted connections no longer receive the context\'s anonymous switch')
    for f, c in sites:
        key = '%s:set_allow_anonymous' % f.name
        if is_member(c['args'][1], 'allow_anonymous', 'BusContext'):
            r.ok(key)
        else:
            r.violation(key, f.name, f.file, c['line'], 'dbus_connection_set_allow_anonymous is given %s, not '
                        'context->allow_anonymous' % estr(c['args'][1]))
    lib.who_writes_field(prog, r, 'DBusTransport', 'allow_anonymous',
                         {'_dbus_transport_set_allow_anonymous', '_dbus_transport_init_base'})


def c08_8(ck, prog):
    r = ck.rule('C08.8', 'the server\'s mechanism restriction cannot be lost silently: a failed '
                '_dbus_auth_set_mechanisms leaves "all mechanisms allowed", so every caller on the accept path '
                'tests the result and gives the connection up on failure; only the server hands its configured '
                'list down', 'DOM',
                breaks='under memory pressure a server restricted to EXTERNAL accepts DBUS_COOKIE_SHA1 / ANONYMOUS',
                floor=2)
    SETTERS = {'_dbus_transport_set_auth_mechanisms', '_dbus_auth_set_mechanisms'}
    n = 0
    for f in lib.prod_funcs(prog):
        if not f.file.startswith('dbus/'):
            continue
        sites = [(b, i, c) for b, i, c in f.calls() if c.get('callee') in SETTERS]
        if not sites:
            continue
        ids = {c['id']: c for b, i, c in sites}

        def used(cid):
            for b, i, ev in f.events():
                tops = []
                if ev['ev'] == 'decl':
                    tops = [ev.get('init')]
                elif not (ev['ev'] == 'call' and ev['e'].get('id') == cid):
                    tops = [ev.get('e')]
                for top in tops:
                    if isinstance(top, dict) and any(x.get('k') == 'call' and x.get('id') == cid for x in walk(top)):
                        return True
            for blk in f.blocks.values():
                t = blk.get('term')
                if t and t.get('cond') is not None and any(x.get('k') == 'call' and x.get('id') == cid
                                                           for x in walk(t['cond'])):
                    return True
            return False

        def on_exit(user, ctx, ret, ev, f=f, ids=ids):
            for cid, c in ids.items():
                if ctx.result_known(cid) is False and ctx.ret_status(ret) == 'ok' and f.ret != 'void':
                    ctx.report('%s reports success on a path where %s failed' % (f.name, c['callee']),
                               ev['line'] if ev else f.endline, key=('ignored', c['line']))
        ex = Explorer(f, on_exit=on_exit, calls=SETTERS, track='auto', cap=300000).run()
        for b, i, c in sites:
            n += 1
            key = '%s:%s' % (f.name, c['callee'])
            mine = [rep for k, rep in ex.reports.items() if k[1] == c['line']]
            if not used(c['id']):
                r.violation(key, f.name, f.file, c['line'], 'the result of %s is dropped: on out-of-memory the '
                            'restriction is silently not applied' % c['callee'])
            elif mine:
                r.violation(key, f.name, f.file, mine[0]['line'], mine[0]['reason'], mine[0]['path'])
            else:
                r.ok(key, {'site': '%s:%d' % (f.file, c['line'])})
    if n < 2:
        raise AnalysisBroken('only %d mechanism-restriction call sites found' % n)


def c08_9(ck, prog):
    r = ck.rule('C08.9', 'cookie freshness (DBUS_COOKIE_SHA1): when the keyring is loaded a cookie is dropped '
                'exactly when its timestamp is negative, more than MAX_TIME_TRAVEL_SECONDS in the future or more '
                'than EXPIRE_KEYS_TIMEOUT_SECONDS old; only a cookie younger than NEW_KEY_TIMEOUT_SECONDS is offered '
                'in a challenge', 'DEC',
                breaks='a stale or future-dated cookie stays valid indefinitely: the server keeps challenging with '
                       'it and accepts responses computed from it', floor=10)
    K = 'dbus/dbus-keyring.c'
    fn = prog.fn('_dbus_keyring_reload', K)
    travel, expire, newk = 300, 420, 300
    # the filter is an `a || b || c` chain: the blocks whose TRUE edge enters the drop branch
    drop = None
    for blk in fn.blocks.values():
        t = blk.get('term')
        if t and t.get('cond') is not None and t.get('kind') == 'IfStmt':
            names = {x.get('name') for x in walk(t['cond']) if is_ref(x)}
            if {'timestamp', 'now'} <= names:
                drop = blk['succs'][0]
    if drop is None:
        raise AnalysisBroken('_dbus_keyring_reload: the timestamp filter was not found')
    chain = [blk['term']['cond'] for blk in fn.blocks.values()
             if blk.get('term') and blk['term'].get('cond') is not None and blk['succs'] and blk['succs'][0] == drop
             and any(is_ref(x, 'timestamp') for x in walk(blk['term']['cond']))]
    cond = chain[0]
    for c in chain[1:]:
        cond = {'k': 'bin', 'op': '||', 'l': cond, 'r': c}
    now = 1000000
    for d in (-now - 1, -expire - 1, -expire, -expire + 1, -1, 0, 1, travel - 1, travel, travel + 1, 86400 * 365):
        ts = now + d

        def val(e, ts=ts):
            if is_ref(e, 'timestamp'):
                return ts
            if is_ref(e, 'now'):
                return now
            return None
        got = lib.eval_expr(cond, val)
        want = int(ts < 0 or d > travel or d < -expire)
        key = 'reload:timestamp=now%+d' % d
        if got is None:
            raise AnalysisBroken('_dbus_keyring_reload: cannot evaluate the timestamp filter %s' % estr(cond)[:120])
        if got == want:
            r.ok(key, {'dropped': bool(got)})
        else:
            r.violation(key, fn.name, K, fn.line,
                        'a cookie with timestamp now%+d s is %s; the rule is: drop iff negative, more than %d s in '
                        'the future or more than %d s old' % (d, 'dropped' if got else 'kept', travel, expire))
    fr = prog.fn('find_recent_key', K)
    c2 = None
    for blk in fr.blocks.values():
        t = blk.get('term')
        if t and t.get('cond') is not None and any(is_member(x, 'creation_time') for x in walk(t['cond'])):
            c2 = t['cond']
    if c2 is None:
        raise AnalysisBroken('find_recent_key: the age test was not found')
    for age in (0, newk - 1, newk, newk + 1, 100000):
        def val2(e, age=age):
            if is_member(e, 'creation_time'):
                return now - age
            if is_ref(e, 'tv_sec'):
                return now
            return None
        got = lib.eval_expr(c2, val2)
        want = int(age < newk)
        key = 'find_recent_key:age=%d' % age
        if got is None:
            raise AnalysisBroken('find_recent_key: cannot evaluate %s' % estr(c2)[:100])
        if got == want:
            r.ok(key)
        else:
            r.violation(key, fr.name, K, fr.line, 'a cookie aged %d s is %s for new challenges (limit %d s)' % (
                age, 'offered' if got else 'not offered', newk))


def c08_10(ck, prog):
    r = ck.rule('C08.10', 'the DBUS_COOKIE_SHA1 digest is SHA-1 over "server challenge : client challenge : cookie": on '
                'the successful path of sha1_compute_hash the string handed to _dbus_sha_compute was composed of exactly '
                'these pieces in this order, the cookie being what the keyring returned for the cookie id', 'TS',
                breaks='a digest that does not depend on the secret cookie (or on the server\'s nonce) can be computed by '
                'anybody who saw the exchange: a peer that never read the keyring authenticates as its owner', floor=1)
    A = 'dbus/dbus-auth.c'
    fn = prog.fn('sha1_compute_hash', A)
    P = {p['name']: p['id'] for p in fn.params}
    sha = [c for b, i, c in fn.calls('_dbus_sha_compute')]
    if len(sha) != 1:
        raise AnalysisBroken('sha1_compute_hash: expected one _dbus_sha_compute call')
    target = strip_addr(sha[0]['args'][0])
    key_calls = [c for b, i, c in fn.calls('_dbus_keyring_get_hex_key')]
    if target is None or not is_ref(target) or len(key_calls) != 1 or len(fn.params) < 4:
        raise AnalysisBroken('sha1_compute_hash: digest input / keyring lookup not recognised')
    tid = target['id']
    cookie = strip_addr(key_calls[0]['args'][2])
    okid = is_ref(key_calls[0]['args'][1]) and key_calls[0]['args'][1].get('id') == fn.params[1]['id']
    srv, cli = fn.params[2]['id'], fn.params[3]['id']

    def piece(c):
        cal = c.get('callee')
        if cal == '_dbus_string_copy' and len(c['args']) >= 3:
            dst = strip_addr(c['args'][2])
            if dst is not None and is_ref(dst) and dst.get('id') == tid:
                src = c['args'][0]
                inner = strip_addr(src)
                if is_ref(src) and src.get('id') == srv:
                    return 'server'
                if is_ref(src) and src.get('id') == cli:
                    return 'client'
                if inner is not None and cookie is not None and is_ref(inner) and inner.get('id') == cookie.get('id'):
                    return 'cookie'
                return 'other(%s)' % estr(src)
        if cal in ('_dbus_string_append', '_dbus_string_append_byte') and c['args']:
            dst = strip_addr(c['args'][0])
            if dst is not None and is_ref(dst) and dst.get('id') == tid:
                a = c['args'][1]
                if a.get('k') == 'str':
                    return a['v']
                if is_int(a):
                    return chr(a['v'])
                return 'other(%s)' % estr(a)
        return None

    def on_event(user, ev, ctx):
        if ev['ev'] == 'call':
            c = ev['e']
            if c.get('callee') == '_dbus_string_init' and c['args']:
                d = strip_addr(c['args'][0])
                if d is not None and is_ref(d) and d.get('id') == tid:
                    return ()
            p = piece(c)
            if p is not None:
                return (user or ()) + (p,)
            if c['id'] == sha[0]['id']:
                if tuple(user or ()) != ('server', ':', 'client', ':', 'cookie'):
                    ctx.report('the digest is computed over %s; the specification prescribes server challenge ":" '
                               'client challenge ":" cookie' % (' '.join(user or ()) or 'nothing'), c['line'],
                               key='composition')
        return user
    ex = Explorer(fn, init=None, on_event=on_event, track=None, cap=200000).run()
    if ex.reports:
        r.from_reports(ex.reports, keyfn=lambda k, rep: 'sha1_compute_hash:%s' % k)
    elif okid:
        r.ok('sha1_compute_hash:composition')
    else:
        r.violation('sha1_compute_hash:cookie-id', fn.name, A, key_calls[0]['line'],
                    'the cookie is not looked up by the cookie id the function was given')


def run(ck):
    ck.explanation = (
        'Static rules over dbus/dbus-auth.c, dbus/dbus-transport.c, dbus/dbus-transport-socket.c: the server\'s '
        '(state, command) action table is extracted from the three switch statements (case labels resolved by the '
        'compiler) and compared with the specification\'s server state diagrams for all 10 commands x 3 states; '
        '"authenticated" is entered only through BEGIN in WaitingForBegin, entered only by send_ok, called by each '
        'mechanism only after its proof (EXTERNAL: socket credentials superset of the rebuilt desired identity; '
        'COOKIE_SHA1: reviewed full equality of the whole client hash with a non-empty hash computed from both '
        'challenges and the keyring cookie; ANONYMOUS: only via the allowed-mechanism filter) with the authorised '
        'identity filled from the proven one; rejection clears both identities and counts before the state '
        'change; buffers are bounded per iteration; no message I/O before the transport flag, which is set only '
        'from the AUTHENTICATED state plus an admission function.')
    ck.not_decided = ('SHA-1 and hex-decoding correctness, chunking independence of the line parser, semantics '
                      'of a non-reviewed comparison helper (reported as violation until reviewed)')
    for v, prog in ck.programs(thorough_variants=('B',)):
        c08_1(ck, prog)
        c08_2(ck, prog)
        c08_3(ck, prog)
        c08_4(ck, prog)
        c08_5(ck, prog)
        c08_6(ck, prog)
        c08_7(ck, prog)
        c08_8(ck, prog)
        c08_9(ck, prog)
        r = ck.rule('C08.11', 'the response to a cookie challenge is accepted only when it equals the expected hash as a '
                    'whole (shared with C04.6): _dbus_string_equal answers TRUE only when the lengths are equal and every '
                    'byte was compared', 'TS', breaks='any prefix of the correct SHA-1 digest is accepted: a peer that '
                    'never saw the cookie guesses one hex digit and is authenticated as the owner of the bus', floor=2)
        lib.whole_string_equality(prog, r)
        r = ck.rule('C08.12', 'cookie ages are measured on the wall clock they were stamped with: _dbus_get_real_time '
                    'reads the realtime clock (gettimeofday / CLOCK_REALTIME), _dbus_get_monotonic_time the monotonic one',
                    'TAB', breaks='keyring entries carry wall-clock stamps; judged against the time since boot an '
                    'arbitrarily old cookie counts as fresh and is offered and accepted', floor=2)
        lib.clocks_named(prog, r)
        c08_10(ck, prog)
