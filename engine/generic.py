"""Rules that every property instantiates over its own anchor files (properties.jsonl `anchors.files`
plus the few files its mechanism continues into).  Run from Check.programs() for every program."""
import json
import os

from .cfg import is_int, walk
from .facts import VERIF, AnalysisBroken

# files a property's mechanism continues into beyond its listed anchors
EXTRA_FILES = {
    'C08': ['dbus/dbus-server-socket.c', 'dbus/dbus-server.c', 'dbus/dbus-server-unix.c',
            'dbus/dbus-server-debug-pipe.c', 'bus/config-parser.c', 'dbus/dbus-sysdeps-unix.c'],
    'C06': ['bus/config-parser-common.c', 'dbus/dbus-sysdeps-unix.c', 'dbus/dbus-credentials.c'],
    'C11': ['dbus/dbus-connection.c'],
    'C05': ['dbus/dbus-message.c', 'dbus/dbus-transport-socket.c'],   # queued messages leave through the socket transport
    'C19': ['bus/activation-helper-bin.c', 'bus/config-parser-trivial.c', 'dbus/dbus-mainloop.c', 'dbus/dbus-timeout.c',
            'bus/bus.c'],                                                  # the activation timeout comes from the context
    'C15': ['dbus/dbus-auth.c', 'dbus/dbus-transport.c'],                  # where descriptor passing is negotiated and asked about
    'C09': ['dbus/dbus-mainloop.c', 'dbus/dbus-timeout.c'],                # reply timeouts are main-loop timeouts
    'C13': ['dbus/dbus-connection.c', 'dbus/dbus-transport.c'],   # the size limit travels connection -> transport -> loader
    'C14': ['bus/config-parser.c', 'bus/config-parser-common.c', 'bus/policy.c', 'bus/config-loader-expat.c'],
}

# callees whose FALSE is an answer, not a failure, or whose failure is best-effort by design
IGNORABLE = {
    '_dbus_close': 'best-effort close on cleanup paths',
    '_dbus_type_reader_next': 'FALSE means "no further value"',
    '_dbus_hash_table_remove_string': 'FALSE means "was not present"',
    '_dbus_hash_table_remove_uintptr': 'FALSE means "was not present"',
    '_dbus_hash_table_remove_int': 'FALSE means "was not present"',
    '_dbus_hash_iter_next': 'FALSE means "end of table"',
    '_dbus_header_get_field_basic': 'FALSE means "field absent"; the out value was preset',
    '_dbus_list_remove_last': 'FALSE means "was not present"',
    '_dbus_list_remove': 'FALSE means "was not present"',
    '_dbus_mem_pool_dealloc': 'the return value only says whether the pool became empty',
    'dbus_message_iter_next': 'FALSE means "no further argument"',
    'dbus_message_iter_init': 'FALSE means "no arguments"',
    '_dbus_string_find_blank': 'FALSE means "not found"; the out position is the end of the string',
    '_dbus_delete_directory': 'best-effort removal',
    '_dbus_delete_file': 'best-effort removal',
}

# reviewed sites (caller, callee): one line of reason each
REVIEWED = {
    ('new_connection_callback', 'bus_context_add_incoming_connection'):
        'a refused connection is dropped by the callee; nothing else to do in the server callback',
    ('bus_connection_disconnected', 'dbus_connection_set_data'): 'clearing a slot (NULL data) cannot fail',
    ('cache_peer_loginfo_string', '_dbus_command_for_pid'): 'the command line is optional log decoration',
    ('bus_matchmaker_get_recipients', 'bus_connection_mark_stamp'): 'the answer "already stamped" is not needed',
    ('send_no_return_values', 'dbus_connection_send'): 'fire-and-forget call; failure leaves nothing to undo',
    ('_dbus_connection_remove_watch_unlocked', 'protected_change_watch'): 'removal cannot run out of memory',
    ('_dbus_connection_toggle_watch_unlocked', 'protected_change_watch'): 'toggling cannot run out of memory',
    ('_dbus_connection_remove_timeout_unlocked', 'protected_change_timeout'): 'removal cannot run out of memory',
    ('_dbus_server_remove_watch', 'protected_change_watch'): 'removal cannot run out of memory',
    ('_dbus_loop_add_watch', 'gc_watch_table_entry'): 'the answer "entry collected" is not needed',
    ('load_and_validate_field', '_dbus_header_get_field_raw'): 'the field was just found by the caller',
    ('reader_set_basic_fixed_length', '_dbus_marshal_set_basic'): 'fixed-length replacement cannot fail',
    ('dbus_set_error_from_message', 'dbus_message_get_args'): 'a missing message string leaves str NULL, handled',
    ('copy_address_with_guid_appended', '_dbus_string_steal_data'): 'retval stays NULL on failure and is returned',
    ('dbus_server_get_id', '_dbus_string_copy_data'): 'retval stays NULL on failure and is returned',
    ('_dbus_string_shorten', 'set_length'): 'shrinking never reallocates',
    ('_dbus_read_local_machine_uuid', '_dbus_write_uuid_file'): 'writing the generated uuid back is best effort',
    ('_dbus_timeout_list_free', '_dbus_timeout_list_set_functions'): 'clearing the functions cannot fail',
    ('_dbus_watch_list_free', '_dbus_watch_list_set_functions'): 'clearing the functions cannot fail',
    ('socket_do_iteration', 'do_writing'): 'an out-of-memory pass is retried on the next iteration',
    ('socket_do_iteration', 'do_reading'): 'an out-of-memory pass is retried on the next iteration',
    ('socket_do_iteration', 'do_authentication'): 'an out-of-memory pass is retried on the next iteration',
    ('_dbus_user_database_get_system', 'init_system_db'): 'a NULL database is returned when initialisation failed',
}

# the file each reviewed caller lives in: a reviewed site keeps its exemption when the statement moves to
# another function of the same file (helper extracted / inlined)
REVIEWED_FILE = {'new_connection_callback': 'bus/bus.c',
                 'bus_connection_disconnected': 'bus/connection.c',
                 'cache_peer_loginfo_string': 'bus/connection.c',
                 'bus_matchmaker_get_recipients': 'bus/signals.c',
                 'send_no_return_values': 'dbus/dbus-bus.c',
                 '_dbus_connection_remove_watch_unlocked': 'dbus/dbus-connection.c',
                 '_dbus_connection_toggle_watch_unlocked': 'dbus/dbus-connection.c',
                 '_dbus_connection_remove_timeout_unlocked': 'dbus/dbus-connection.c',
                 '_dbus_server_remove_watch': 'dbus/dbus-server.c',
                 '_dbus_loop_add_watch': 'dbus/dbus-mainloop.c',
                 'load_and_validate_field': 'dbus/dbus-marshal-header.c',
                 'reader_set_basic_fixed_length': 'dbus/dbus-marshal-recursive.c',
                 'dbus_set_error_from_message': 'dbus/dbus-message.c',
                 'copy_address_with_guid_appended': 'dbus/dbus-server.c',
                 'dbus_server_get_id': 'dbus/dbus-server.c',
                 '_dbus_string_shorten': 'dbus/dbus-string.c',
                 '_dbus_read_local_machine_uuid': 'dbus/dbus-sysdeps-unix.c',
                 '_dbus_timeout_list_free': 'dbus/dbus-timeout.c',
                 '_dbus_watch_list_free': 'dbus/dbus-watch.c',
                 'socket_do_iteration': 'dbus/dbus-transport-socket.c',
                 '_dbus_user_database_get_system': 'dbus/dbus-userdb.c'}

_anchors = None


def anchor_files(pid):
    global _anchors
    if _anchors is None:
        _anchors = {}
        with open(os.path.join(VERIF, 'properties.jsonl')) as fh:
            for line in fh:
                d = json.loads(line)
                _anchors[d['id']] = [f for f in d['anchors']['files'] if f.endswith('.c')]
    return set(_anchors.get(pid, [])) | set(EXTRA_FILES.get(pid, []))


# General-purpose modules (lists, hash tables, strings, memory pools, counters, main loop, watches, timeouts, system
# wrappers ...): not anchored in any one property, used by the code of most.  A property's scope is the functions of its
# anchor files plus the functions of these modules that its anchor code calls, directly or through other such functions.
BASIC_FILES = {'dbus/dbus-string.c', 'dbus/dbus-list.c', 'dbus/dbus-hash.c', 'dbus/dbus-marshal-basic.c',
               'dbus/dbus-sysdeps-unix.c'}
_scope_cache = {}


def support_files(prog):
    allanch = set()
    for i in range(1, 21):
        allanch |= anchor_files('C%02d' % i)
    files = {f.file for f in prog.funcs.values()
             if prog.is_production(f) and f.file.endswith('.c') and (f.file.startswith('dbus/') or f.file.startswith('bus/'))}
    return (files - allanch) | BASIC_FILES


def scope_keys(prog, pid):
    key = (id(prog), pid)
    if key not in _scope_cache:
        anch = anchor_files(pid)
        own = {f.key for f in prog.funcs.values() if f.file in anch and prog.is_production(f)}
        reach = set()
        if os.environ.get('VERIF_NO_SUPPORT_SCOPE') != '1':
            util = support_files(prog)
            if prog._callees is None:
                prog._build_graph()
            st = list(own)
            seen = set(own)
            while st:
                k = st.pop()
                for c in prog._callees.get(k, ()):
                    g = prog.funcs.get(c)
                    if g is None or c in seen:
                        continue
                    seen.add(c)
                    # the walk goes through whatever the property's code calls; what is added to the scope are the
                    # general-purpose functions met on the way
                    if prog.is_production(g):
                        st.append(c)
                        if g.file in util:
                            reach.add(c)
        _scope_cache.clear()            # one program at a time is alive
        _scope_cache[key] = (own, reach)
    own, reach = _scope_cache[key]
    return own, reach


def in_scope(prog, pid, f):
    own, reach = scope_keys(prog, pid)
    return f.key in own or f.key in reach


def fallible_names(prog):
    """Functions returning dbus_bool_t that have a literal `return FALSE`."""
    out = set()
    for g in prog.funcs.values():
        if g.ret != 'dbus_bool_t':
            continue
        for b, i, ev in g.events():
            if ev['ev'] == 'return' and ev.get('e') is not None and is_int(ev['e'], 0):
                out.add(g.name)
                break
    return out


def used_call_ids(f):
    used = set()
    for b, i, ev in f.events():
        if ev['ev'] == 'decl':
            tops = [ev.get('init')]
        elif ev['ev'] == 'call':
            tops = list(ev['e']['args'])
        else:
            tops = [ev.get('e')]
        for top in tops:
            if isinstance(top, dict):
                for x in walk(top):
                    if x.get('k') == 'call':
                        used.add(x['id'])
    for blk in f.blocks.values():
        t = blk.get('term')
        if t and t.get('cond') is not None:
            for x in walk(t['cond']):
                if x.get('k') == 'call':
                    used.add(x['id'])
    return used


def error_discipline(ck, prog):
    pid = ck.pid
    files = anchor_files(pid)
    r = ck.rule(pid + '.E', 'error discipline in this property\'s files: the result of every call that can '
                'report failure (a dbus_bool_t function with a `return FALSE`) is tested, stored, returned or '
                'passed on; only callees whose FALSE is an answer and individually reviewed sites are exempt',
                'TS', breaks='a failure (out of memory, refused operation) goes unnoticed and the operation '
                'carries on as if it had succeeded', floor=20)
    names = fallible_names(prog)
    n = 0
    for f in prog.funcs.values():
        if not in_scope(prog, ck.pid, f):
            continue
        used = None
        for b, i, c in f.calls():
            cal = c.get('callee')
            if cal not in names:
                continue
            if used is None:
                used = used_call_ids(f)
            n += 1
            key = '%s:%s' % (f.name, cal)
            if c['id'] in used:
                r.ok(key)
            elif cal in IGNORABLE:
                r.ok(key, {'exempt': IGNORABLE[cal]})
            elif (f.name, cal) in REVIEWED:
                r.ok(key, {'reviewed': REVIEWED[(f.name, cal)]})
            elif any(c2 == cal and REVIEWED_FILE.get(f2) == f.file for (f2, c2) in REVIEWED):
                r.ok(key, {'reviewed': 'same file and callee as a reviewed site'})
            else:
                r.violation(key, f.name, f.file, c['line'],
                            'the result of %s is dropped in %s: when it fails the operation carries on as if it '
                            'had succeeded' % (cal, f.name))
    r.note('%d calls of fallible functions examined in %s' % (n, ', '.join(sorted(files))))


def onebit_stores(ck, prog):
    pid = ck.pid
    files = anchor_files(pid)
    r = ck.rule(pid + '.B', 'one-bit flags in this property\'s files are stored normalised: what is assigned to a '
                '1-bit bit-field is a truth value (0/1 constant, comparison, negation, another 1-bit flag) or an '
                'expression of type dbus_bool_t, never a masked word such as `flags & K`', 'TS',
                breaks='a mask with a bit above bit 0 is truncated to 0 by the bit-field: the flag silently stays '
                       'clear (e.g. DO_NOT_QUEUE / ALLOW_REPLACEMENT of a name owner)', floor=1)
    bits = set()
    for rn, rec in prog.records.items():
        for f in rec['fields']:
            if f.get('bits') == 1:
                bits.add((rn, f['name']))

    def boolish(e):
        k = e.get('k')
        if k == 'int':
            return e['v'] in (0, 1)
        if k in ('paren', 'cast') and isinstance(e.get('e'), dict):
            return boolish(e['e'])
        if k == 'un' and e.get('op') == '!':
            return True
        if k == 'bin' and e.get('op') in ('==', '!=', '<', '>', '<=', '>=', '&&', '||'):
            return True
        if k == 'member' and (e.get('rec'), e.get('field')) in bits:
            return True
        if (e.get('t') or '') in ('dbus_bool_t', '_Bool', 'bool') and k in ('ref', 'call', 'member'):
            return True
        return False
    n = 0
    for f in prog.funcs.values():
        if not in_scope(prog, ck.pid, f):
            continue
        for b, i, ev in f.events():
            if ev['ev'] != 'assign' or ev['e'].get('op') != '=':
                continue
            lhs, rhs = ev['e']['l'], ev['e']['r']
            if lhs.get('k') != 'member' or (lhs.get('rec'), lhs.get('field')) not in bits:
                continue
            n += 1
            key = '%s:%s.%s' % (f.name, lhs.get('rec'), lhs.get('field'))
            if boolish(rhs):
                r.ok(key)
            else:
                from .cfg import estr
                r.violation(key, f.name, f.file, ev['line'],
                            'the 1-bit field %s.%s is assigned %s, which is not a normalised truth value: any bit '
                            'other than bit 0 is lost' % (lhs.get('rec'), lhs.get('field'), estr(rhs)[:80]))
    if n == 0:
        r.skip('no one-bit flag is written in %s' % ', '.join(sorted(files))) if hasattr(r, 'skip') else None



# ---------------------------------------------------------------------------
# boundary comparisons against named constants

_SWAP = {'<': '>', '>': '<', '<=': '>=', '>=': '<=', '==': '==', '!=': '!='}
_CLASS = {'<': 'below-excl', '>=': 'below-excl', '<=': 'below-incl', '>': 'below-incl', '==': 'eq', '!=': 'eq'}


def comparison_profile(f):
    """{constant name: {strictness class: [lines]}} for every comparison of something with a named
    integer constant (macro or enumerator) in function f.  `x < K` and `x >= K` are the same boundary seen
    from its two sides; `x <= K` / `x > K` is the other boundary."""
    out = {}
    tops = []
    for b, i, ev in f.events():
        if ev['ev'] == 'decl':
            tops.append((ev.get('init'), ev['line']))
        else:
            tops.append((ev.get('e'), ev['line']))
    for blk in f.blocks.values():
        t = blk.get('term')
        if t and t.get('cond') is not None:
            tops.append((t['cond'], t['line']))
    seen = set()
    for top, line in tops:
        if not isinstance(top, dict):
            continue
        for x in walk(top):
            if x.get('k') != 'bin' or x.get('op') not in _CLASS:
                continue
            ln = is_int(x['l']) and x['l'].get('name')
            rn = is_int(x['r']) and x['r'].get('name')
            if bool(ln) == bool(rn):
                continue
            name = rn or ln
            if name.startswith('_dbus_assert') or name in ('TRUE', 'FALSE', 'NULL'):
                continue
            op = x['op'] if rn else _SWAP[x['op']]
            sig = (name, op, line)
            if sig in seen:
                continue
            seen.add(sig)
            out.setdefault(name, {}).setdefault(_CLASS[op], []).append(line)
    return out


def boundary_comparisons(ck, prog):
    pid = ck.pid
    files = anchor_files(pid)
    path = os.path.join(VERIF, 'engine', 'baseline_comparisons.json')
    if not os.path.exists(path):
        return
    with open(path) as fh:
        base = json.load(fh).get(getattr(ck, 'variant', 'A'), {})
    r = ck.rule(pid + '.C', 'boundaries against named constants keep their side in this property\'s files: where a '
                'function compares a value with a named limit / code (macro or enumerator), equality with the '
                'constant falls on the same side as in the reference tree (`x > K` / `x <= K` versus `x >= K` / '
                '`x < K`; `==` / `!=` stay equality tests)', 'TAB',
                breaks='an off-by-one at a limit or a code range: the value equal to the constant is accepted where '
                       'it was rejected (or the reverse)', floor=5)
    n = 0
    for f in prog.funcs.values():
        if not in_scope(prog, ck.pid, f):
            continue
        ref = base.get(f.file, {}).get(f.name)
        if not ref:
            continue
        cur = comparison_profile(f)
        # a comparison against one named constant replaced by a comparison against another one
        def total(v):
            return sum(v.values()) if isinstance(v, dict) else len(v)
        rc = {k: total(v) for k, v in ref.items()}
        cc = {k: sum(len(ls) for ls in v.values()) for k, v in cur.items()}
        gone = {k: rc[k] - cc.get(k, 0) for k in rc if rc[k] > cc.get(k, 0)}
        fresh = {k: cc[k] - rc.get(k, 0) for k in cc if cc[k] > rc.get(k, 0)}
        if gone and fresh and sum(gone.values()) == sum(fresh.values()):
            n += 1
            line = min(l for k in fresh for ls in cur[k].values() for l in ls)
            r.violation('%s:%s->%s' % (f.name, ','.join(sorted(gone)), ','.join(sorted(fresh))), f.name, f.file, line,
                        '%s now compares with %s where the reference tree compares with %s' % (
                            f.name, ', '.join(sorted(fresh)), ', '.join(sorted(gone))))
        for name, classes in cur.items():
            if name not in ref:
                continue
            n += 1
            key = '%s:%s' % (f.name, name)
            # per side: how many comparisons; a swap shows as one side gaining what the other lost
            refc = ref[name] if isinstance(ref[name], dict) else {c: 1 for c in ref[name]}
            gained = [c for c in classes if len(classes[c]) > refc.get(c, 0)]
            lost = [c for c in refc if refc[c] > len(classes.get(c, []))]
            extra = set(gained) if (gained and lost) or (set(classes) - set(refc)) else set()
            if not extra:
                r.ok(key)
            else:
                cl = sorted(extra)[0]
                r.violation(key, f.name, f.file, classes[cl][0],
                            '%s compares with %s as %s; the reference tree has %s for this function (the value equal '
                            'to %s changed sides)' % (
                                f.name, name, cl, ', '.join('%d x %s' % (v, k) for k, v in sorted(refc.items())), name))
    r.note('%d (function, constant) pairs compared with the reference' % n)


import re as _re
_NAME_RE = _re.compile(r'^[A-Za-z_][A-Za-z0-9_.]*$')


def constant_args_profile(f):
    """{callee: {constant name: count}} for named integer / string-macro constants passed as call arguments."""
    out = {}
    for b, i, c in f.calls():
        cal = c.get('callee')
        if not cal or cal.startswith('_dbus_verbose') or cal.startswith('_dbus_real_assert') or cal == '_dbus_warn' \
                or cal.startswith('__builtin_'):
            continue
        for a in c['args']:
            x = a
            while isinstance(x, dict) and x.get('k') in ('paren', 'cast') and isinstance(x.get('e'), dict):
                x = x['e']
            nm = None
            if is_int(x) and x.get('name'):
                nm = x['name']
            elif is_int(x) and not x.get('implicit') and not x.get('sz') and 2 <= abs(x.get('v', 0)) <= 65536:
                nm = 'int:%d' % x['v']          # a literal size / count / index (0 and 1 are too common to mean much)
            elif x.get('k') == 'str' and isinstance(x.get('v'), str) and '.' in x['v'] and \
                    _NAME_RE.match(x['v']):
                nm = 'str:' + x['v']          # a dotted name literal (error name, interface, bus name)
            if nm and not nm.startswith('_dbus_assert') and nm not in ('TRUE', 'FALSE', 'NULL'):
                d = out.setdefault(cal, {})
                d[nm] = d.get(nm, 0) + 1
    return out


def _arg_values(f, cal):
    """{constant name: value} of the named integer constants f passes to cal"""
    out = {}
    for b, i, c in f.calls(cal):
        for a in c['args']:
            x = a
            while isinstance(x, dict) and x.get('k') in ('paren', 'cast') and isinstance(x.get('e'), dict):
                x = x['e']
            if is_int(x) and x.get('name'):
                out[x['name']] = x['v']
    return out


def constant_arguments(ck, prog):
    pid = ck.pid
    files = anchor_files(pid)
    path = os.path.join(VERIF, 'engine', 'baseline_constargs.json')
    if not os.path.exists(path):
        return
    with open(path) as fh:
        base = json.load(fh).get(getattr(ck, 'variant', 'A'), {})
    r = ck.rule(pid + '.K', 'named constants handed to callees keep their identity in this property\'s files: where a '
                'function passes a named constant (type code, error name, header field, flag, reply code) to a callee, '
                'it is not silently replaced by a different constant of the same call (a swap: one name gone, another '
                'new, same callee, same function)', 'TAB',
                breaks='a value is written or read with the wrong type code, a request is refused with the wrong '
                       'error name, the wrong header field or flag is used', floor=5)
    n = 0
    for f in prog.funcs.values():
        if not in_scope(prog, ck.pid, f):
            continue
        ref = base.get(f.file, {}).get(f.name)
        if not ref:
            continue
        cur = constant_args_profile(f)
        for cal, consts in cur.items():
            if cal not in ref:
                continue
            n += 1
            gone = {k: v - consts.get(k, 0) for k, v in ref[cal].items() if v > consts.get(k, 0)}
            new = {k: v - ref[cal].get(k, 0) for k, v in consts.items() if v > ref[cal].get(k, 0)}
            key = '%s:%s' % (f.name, cal)
            if gone and new:
                # the same value under another spelling (a literal given a name, a renamed macro) is not a change
                vals = _arg_values(f, cal)

                def val(nm):
                    if nm.startswith('int:'):
                        return int(nm[4:])
                    if nm.startswith('str:'):
                        return nm
                    if nm in vals:
                        return vals[nm]
                    try:
                        return prog.macro_int(nm)
                    except Exception:
                        return None
                for g in list(gone):
                    for w in list(new):
                        if g in gone and w in new and val(g) is not None and val(g) == val(w):
                            k2 = min(gone[g], new[w])
                            gone[g] -= k2
                            new[w] -= k2
                            if not gone[g]:
                                del gone[g]
                            if not new[w]:
                                del new[w]
            if gone and new and sum(gone.values()) == sum(new.values()):
                line = next((c['line'] for b, i, c in f.calls(cal)), f.line)
                r.violation(key, f.name, f.file, line,
                            '%s now passes %s to %s where the reference tree passes %s' % (
                                f.name, ', '.join(sorted(new)), cal, ', '.join(sorted(gone))))
            else:
                r.ok(key)
    r.note('%d (function, callee) pairs compared with the reference' % n)


# ---------------------------------------------------------------------------
# integer width agreement between record fields

_WIDTH = {'char': 8, 'signed char': 8, 'unsigned char': 8, 'short': 16, 'unsigned short': 16, 'int': 32,
          'unsigned int': 32, 'unsigned': 32, 'long': 64, 'unsigned long': 64, 'long long': 64,
          'unsigned long long': 64, 'dbus_bool_t': 32, 'dbus_uint32_t': 32, 'dbus_int32_t': 32,
          'dbus_uint16_t': 16, 'dbus_int16_t': 16, 'dbus_uint64_t': 64, 'dbus_int64_t': 64, 'size_t': 64,
          'ssize_t': 64, 'dbus_uid_t': 64, 'dbus_gid_t': 64, 'dbus_pid_t': 64, 'uid_t': 32, 'gid_t': 32,
          'pid_t': 32, 'uintptr_t': 64, 'intptr_t': 64}

# reviewed mixed-width sites: (function, spelling of the narrower side)
WIDTH_REVIEWED = {
    ('_dbus_message_loader_get_unix_fds', 'loader->n_unix_fds_allocated'):
        'the limit was checked to fit before it is copied; the comparison promotes the narrower side',
    ('_dbus_mem_pool_alloc', 'pool->block_size'): 'block_size is a small positive int; promoted for the comparison',
}


# functions whose narrowing stores were reviewed: the value is range-checked before it is stored
NARROWING_REVIEWED = {
    'set_limit': 'the configured value was checked to fit in an int',
    'append_rule_from_element': 'min_fds / max_fds were parsed and range-checked before they are stored',
}


def _width(t):
    if not t:
        return None
    return _WIDTH.get(t.replace('const ', '').replace('volatile ', '').strip())


def field_widths(ck, prog):
    from .cfg import estr, is_member, written_lvalues
    pid = ck.pid
    files = anchor_files(pid)
    r = ck.rule(pid + '.W', 'integer widths agree where one record field is copied to or compared with another in '
                'this property\'s files: no field receives the value of a wider field, and two fields that are '
                'compared have the same width (bit-fields excluded); the few reviewed sites are listed', 'TAB',
                breaks='a counter, stamp or length kept in two places stops comparing equal once it exceeds the '
                       'narrower field (e.g. a per-connection stamp narrower than the global stamp it mirrors)',
                floor=1)
    bits = set()
    for rn, rec in prog.records.items():
        for f in rec['fields']:
            if f.get('bits'):
                bits.add((rn, f['name']))
    n = 0

    def mem(e):
        return is_member(e) and (e.get('rec'), e.get('field')) not in bits

    for f in prog.funcs.values():
        if not in_scope(prog, ck.pid, f):
            continue
        tops = []
        for b, i, ev in f.events():
            for lhs, how, rhs in written_lvalues(ev):
                if how == '=' and rhs is not None and mem(lhs) and isinstance(rhs, dict) \
                        and rhs.get('k') in ('call', 'ref') and f.name not in NARROWING_REVIEWED:
                    wl, wr = _width(lhs.get('t')), _width(rhs.get('t'))
                    if wl and wr and wl < wr:
                        n += 1
                        r.violation('%s:%s<-%s' % (f.name, estr(lhs), estr(rhs)[:40]), f.name, f.file, ev['line'],
                                    '%s (%s, %d bits) receives %s (%s, %d bits): the field is narrower than the value it '
                                    'is given' % (estr(lhs), lhs.get('t'), wl, estr(rhs)[:60], rhs.get('t'), wr))
                if how == '=' and rhs is not None and mem(lhs) and mem(rhs):
                    wl, wr = _width(lhs.get('t')), _width(rhs.get('t'))
                    if wl and wr:
                        n += 1
                        key = '%s:%s<-%s' % (f.name, estr(lhs), estr(rhs))
                        if wl < wr and (f.name, estr(lhs)) not in WIDTH_REVIEWED:
                            r.violation(key, f.name, f.file, ev['line'],
                                        '%s (%s, %d bits) receives %s (%s, %d bits): values beyond the narrower '
                                        'field are truncated' % (estr(lhs), lhs.get('t'), wl, estr(rhs), rhs.get('t'), wr))
                        else:
                            r.ok(key)
            tops.append((ev.get('init') if ev['ev'] == 'decl' else ev.get('e'), ev['line']))
        for blk in f.blocks.values():
            t = blk.get('term')
            if t and t.get('cond') is not None:
                tops.append((t['cond'], t['line']))
        seen = set()
        for top, line in tops:
            if not isinstance(top, dict):
                continue
            for x in walk(top):
                if x.get('k') == 'bin' and x.get('op') in ('==', '!=', '<', '>', '<=', '>=') \
                        and mem(x['l']) and mem(x['r']):
                    wl, wr = _width(x['l'].get('t')), _width(x['r'].get('t'))
                    if not (wl and wr):
                        continue
                    key = '%s:%s%s%s' % (f.name, estr(x['l']), x['op'], estr(x['r']))
                    if key in seen:
                        continue
                    seen.add(key)
                    n += 1
                    narrow = x['l'] if wl < wr else x['r']
                    if wl != wr and (f.name, estr(narrow)) not in WIDTH_REVIEWED:
                        r.violation(key, f.name, f.file, line,
                                    '%s (%s) is compared with %s (%s): the two fields have different widths, so '
                                    'they stop agreeing once the value exceeds the narrower one' % (
                                        estr(x['l']), x['l'].get('t'), estr(x['r']), x['r'].get('t')))
                    else:
                        r.ok(key)
    if n == 0:
        r.skip('no field-to-field copy or comparison in %s' % ', '.join(sorted(files)))


# ---------------------------------------------------------------------------
# allocation results are tested

_ALLOC_BASE = {'dbus_malloc', 'dbus_malloc0', 'dbus_realloc'}

# reviewed untested allocation results: (function, callee) -> reason
ALLOC_REVIEWED = {
    ('process_config_first_time_only', 'context->pidfile'):
        'the pid file name is only kept to delete the file at exit; without it the file is left behind',
}


def allocating_nullable(prog):
    """Pointer-returning functions that have a `return NULL` and (transitively) call the allocator: their NULL
    means out of memory (or includes it)."""
    out = set(_ALLOC_BASE)
    cands = {}
    for g in prog.funcs.values():
        if not g.ret or '*' not in g.ret:
            continue
        if any(ev['ev'] == 'return' and ev.get('e') is not None and is_int(ev['e'], 0) for b, i, ev in g.events()):
            cands[g.name] = {c.get('callee') for b, i, c in g.calls() if c.get('callee')}
    changed = True
    while changed:
        changed = False
        for name, callees in cands.items():
            if name not in out and callees & out:
                out.add(name)
                changed = True
    return out


def allocation_results(ck, prog):
    from .cfg import estr, is_ref, same_expr, written_lvalues
    pid = ck.pid
    files = anchor_files(pid)
    r = ck.rule(pid + '.N', 'allocation results are examined in this property\'s files: where the pointer returned by '
                'an allocating function (one that returns NULL when memory runs out) is stored in a variable, field or '
                'slot, that same place is tested in a branch condition or assertion of the function, or handed back to '
                'the caller', 'TS',
                breaks='an out-of-memory NULL is taken for a meaningful value (an empty list, "no restriction", "not '
                       'set") or dereferenced', floor=5)
    if getattr(ck, 'variant', 'A') != 'A':
        # assertions are one of the accepted ways to examine a result; they are compiled out in the other variants
        return
    names = allocating_nullable(prog)
    n = 0
    for f in prog.funcs.values():
        if not in_scope(prog, ck.pid, f):
            continue
        conds = None
        for b, i, ev in f.events():
            for lhs, how, rhs in written_lvalues(ev):
                if how not in ('=', 'decl') or rhs is None or rhs.get('k') != 'call' or rhs.get('callee') not in names:
                    continue
                if conds is None:
                    conds = []
                    for blk in f.blocks.values():
                        t = blk.get('term')
                        if t and t.get('cond') is not None:
                            conds.append(t['cond'])
                    for b2, i2, ev2 in f.events():
                        if ev2['ev'] == 'return' and ev2.get('e') is not None:
                            conds.append(ev2['e'])
                        if ev2['ev'] == 'call' and ev2['e'].get('callee') == '_dbus_real_assert':
                            conds.append(ev2['e']['args'][0])
                        # handing the place itself (not its address) to a callee passes the verdict on
                n += 1
                lk = lhs.get('k')

                def mentions(e, lhs=lhs, lk=lk):
                    for x in walk(e):
                        if lk is None or lk == 'ref':
                            if is_ref(x) and x.get('id') == lhs.get('id'):
                                return True
                        elif x.get('k') == lk and same_expr(x, lhs):
                            return True
                    return False
                spelled = estr(lhs) if lk else lhs.get('name')
                key = '%s:%s=%s' % (f.name, spelled, rhs.get('callee'))
                if any(mentions(c) for c in conds):
                    r.ok(key)
                elif lk == 'un' and lhs.get('op') == '*' and is_ref(lhs.get('e')) and lhs['e'].get('kind') == 'param':
                    r.ok(key, {'passed-on': 'stored through an out-parameter: the caller examines it'})
                elif (f.name, spelled) in ALLOC_REVIEWED:
                    r.ok(key, {'reviewed': ALLOC_REVIEWED[(f.name, spelled)]})
                else:
                    r.violation(key, f.name, f.file, ev['line'],
                                '%s receives the result of %s, which is NULL when memory runs out, and %s never '
                                'examines it' % (spelled, rhs.get('callee'), f.name))
    if n == 0:
        r.skip('no allocation result is stored in %s' % ', '.join(sorted(files)))
    else:
        r.note('%d stored allocation results examined' % n)


# ---------------------------------------------------------------------------
# "unset" sentinels survive widening

_UNSIGNED = {'unsigned char', 'unsigned short', 'unsigned int', 'unsigned', 'unsigned long', 'unsigned long long',
             'dbus_uint16_t', 'dbus_uint32_t', 'dbus_uint64_t', 'size_t', 'dbus_uid_t', 'dbus_gid_t', 'dbus_pid_t',
             'uid_t', 'gid_t', 'uintptr_t'}


def _unsigned(t):
    return bool(t) and t.replace('const ', '').replace('volatile ', '').strip() in _UNSIGNED


def widened_sentinels(ck, prog):
    from .cfg import estr, is_ref, same_expr, written_lvalues
    pid = ck.pid
    files = anchor_files(pid)
    r = ck.rule(pid + '.S', '"unset" sentinels survive widening in this property\'s files: where a variable that is '
                'compared with (or initialised to) an all-ones "unset" constant receives a value of a narrower '
                'unsigned type, the narrower value is first compared with its own all-ones constant', 'TS',
                breaks='the narrower "unset" (e.g. the (uid_t) -1 the kernel reports for a socket without peer '
                       'credentials) is zero-extended into an ordinary-looking value that no longer equals the wide '
                       'sentinel and is taken for a real identity / size', floor=0)
    n = 0
    for f in prog.funcs.values():
        if not in_scope(prog, ck.pid, f):
            continue
        tops = []
        assigns = []
        for b, i, ev in f.events():
            tops.append(ev.get('init') if ev['ev'] == 'decl' else ev.get('e'))
            for lhs, how, rhs in written_lvalues(ev):
                if how in ('=', 'decl') and rhs is not None and (is_ref(lhs) or (isinstance(lhs, dict) and 'id' in lhs)):
                    assigns.append((lhs, rhs, ev['line']))
        for blk in f.blocks.values():
            t = blk.get('term')
            if t and t.get('cond') is not None:
                tops.append(t['cond'])
        # variables with an all-ones sentinel
        sent = {}
        for lhs, rhs, line in assigns:
            if is_int(rhs, -1) and rhs.get('name') and _unsigned(lhs.get('t')) and _width(lhs.get('t')):
                sent[lhs.get('id')] = rhs['name']
        cmps = []
        for top in tops:
            if isinstance(top, dict):
                for x in walk(top):
                    if x.get('k') == 'bin' and x.get('op') in ('==', '!='):
                        cmps.append(x)
                        for a, b2 in ((x['l'], x['r']), (x['r'], x['l'])):
                            if is_ref(a) and is_int(b2, -1) and b2.get('name') and _unsigned(a.get('t')):
                                sent[a.get('id')] = b2['name']
        if not sent:
            continue
        for lhs, rhs, line in assigns:
            if lhs.get('id') not in sent or is_int(rhs):
                continue
            wl, wr = _width(lhs.get('t')), _width(rhs.get('t'))
            if not (wl and wr and wr < wl and _unsigned(rhs.get('t'))):
                continue
            n += 1
            name = lhs.get('name')
            key = '%s:%s<-%s' % (f.name, name, estr(rhs))
            ones = {-1, (1 << wr) - 1}
            guarded = any((same_expr(c['l'], rhs) and is_int(c['r']) and c['r']['v'] in ones) or
                          (same_expr(c['r'], rhs) and is_int(c['l']) and c['l']['v'] in ones) for c in cmps)
            if guarded:
                r.ok(key)
            else:
                r.violation(key, f.name, f.file, line,
                            '%s (%s, compared with %s) receives %s of the narrower unsigned type %s without that value '
                            'being compared with its own all-ones constant: a %d-bit "unset" becomes the ordinary '
                            'value %d' % (name, lhs.get('t'), sent[lhs.get('id')], estr(rhs), rhs.get('t'), wr,
                                          (1 << wr) - 1))
    if n == 0:
        r.skip('no widening store into a sentinel-carrying variable in %s' % ', '.join(sorted(files)))


# ---------------------------------------------------------------------------
# which of the caller's parameters / named constants goes to which parameter of the callee

def argument_bindings(f, prog):
    """{callee: {callee parameter name: sorted list of bindings}} for the calls f makes to functions defined in the
    tree.  A binding is 'param:<name of f's parameter>' or 'const:<named constant>'; arguments that are locals,
    members or compound expressions are not recorded (they are renamed and restructured by ordinary refactoring)."""
    pnames = {p['id']: p['name'] for p in f.params}
    out = {}
    for b, i, c in f.calls():
        cal = c.get('callee')
        if not cal:
            continue
        cands = prog.by_name.get(cal, [])
        if len(cands) != 1:
            continue
        g = cands[0]
        if g.variadic or len(g.params) != len(c['args']):
            continue
        for prm, a in zip(g.params, c['args']):
            x = a
            while isinstance(x, dict) and x.get('k') in ('paren', 'cast') and isinstance(x.get('e'), dict):
                x = x['e']
            bind = None
            if x.get('k') == 'ref' and x.get('kind') == 'param' and x.get('id') in pnames:
                bind = 'param:' + pnames[x['id']]
            elif is_int(x) and x.get('name') and x['name'] not in ('NULL',):
                bind = 'const:' + x['name']
            if bind is None:
                bind = '-'
            out.setdefault(cal, {}).setdefault(prm['name'], []).append(bind)
    return {cal: {k: sorted(v) for k, v in d.items()} for cal, d in out.items()}


def argument_roles(ck, prog):
    pid = ck.pid
    files = anchor_files(pid)
    path = os.path.join(VERIF, 'engine', 'baseline_argbind.json')
    if not os.path.exists(path):
        return
    with open(path) as fh:
        base = json.load(fh).get(getattr(ck, 'variant', 'A'), {})
    r = ck.rule(pid + '.A', 'parameters and named constants keep their role when handed on, in this property\'s files: '
                'where a function passes one of its own parameters (or a named constant) to a parameter of a callee, '
                'it is the same parameter / constant as in the reference tree, as long as both functions keep their '
                'parameter names and the number of such calls is unchanged', 'TAB',
                breaks='two same-typed arguments are exchanged, or the wrong one of two similar parameters is passed '
                       '(the recipient under consideration instead of the addressed recipient, the new byte order '
                       'instead of the old one): the callee decides about the wrong object', floor=5)
    n = 0
    for f in prog.funcs.values():
        if not in_scope(prog, ck.pid, f):
            continue
        ref = base.get(f.file, {}).get(f.name)
        if not ref or ref.get('#params') != [p['name'] for p in f.params]:
            continue
        cur = argument_bindings(f, prog)
        for cal, pm in cur.items():
            rp = ref.get(cal)
            if not rp:
                continue
            # a role that moved from one parameter of the callee to another (two arguments exchanged)
            lost, won = {}, {}
            for pname, binds in pm.items():
                rb = rp.get(pname)
                if rb is None or len(rb) != len(binds):
                    continue
                for x in set(rb) | set(binds):
                    if x == '-':
                        continue
                    if rb.count(x) > binds.count(x):
                        lost.setdefault(x, []).append(pname)
                    if binds.count(x) > rb.count(x):
                        won.setdefault(x, []).append(pname)
            for x in set(lost) & set(won):
                line = next((c['line'] for b, i, c in f.calls(cal)), f.line)
                r.violation('%s:%s(%s moved)' % (f.name, cal, x.split(':', 1)[1]), f.name, f.file, line,
                            '%s now passes %s as the `%s` argument of %s; in the reference tree it is the `%s` argument '
                            '(two arguments exchanged)' % (f.name, x.split(':', 1)[1], ', '.join(won[x]), cal,
                                                           ', '.join(lost[x])))
            for pname, binds in pm.items():
                rb = rp.get(pname)
                if rb is None or len(rb) != len(binds):
                    continue
                n += 1
                key = '%s:%s(%s)' % (f.name, cal, pname)
                if rb == binds:
                    r.ok(key)
                    continue
                gone = [x for x in rb if x not in binds or rb.count(x) > binds.count(x)]
                new = [x for x in binds if x not in rb or binds.count(x) > rb.count(x)]
                # only a replacement of one recorded role by another recorded role is reported
                gone = sorted(set(x for x in gone if x != '-'))
                new = sorted(set(x for x in new if x != '-'))
                if gone and new:
                    line = next((c['line'] for b, i, c in f.calls(cal)), f.line)
                    r.violation(key, f.name, f.file, line,
                                '%s now passes %s as the `%s` argument of %s where the reference tree passes %s' % (
                                    f.name, ', '.join(x.split(':', 1)[1] for x in new), pname, cal,
                                    ', '.join(x.split(':', 1)[1] for x in gone)))
                else:
                    r.ok(key)
    r.note('%d (function, callee, parameter) bindings compared with the reference' % n)


# ---------------------------------------------------------------------------
# further reference-profile rules: constants stored / returned, switch fall-through, small arithmetic offsets

def stored_constants_profile(f):
    """{'return' | 'store:<field or *param>': {named constant: count}}"""
    from .cfg import written_lvalues, is_ref
    out = {}

    def named(e):
        x = e
        while isinstance(x, dict) and x.get('k') in ('paren', 'cast') and isinstance(x.get('e'), dict):
            x = x['e']
        if isinstance(x, dict) and is_int(x) and x.get('name') and x['name'] not in ('TRUE', 'FALSE', 'NULL') \
                and not x['name'].startswith('_dbus_assert'):
            return x['name']
        return None
    for b, i, ev in f.events():
        if ev['ev'] == 'return' and ev.get('e') is not None:
            nm = named(ev['e'])
            if nm:
                d = out.setdefault('return', {})
                d[nm] = d.get(nm, 0) + 1
        for lhs, how, rhs in written_lvalues(ev):
            if how != '=' or rhs is None or not isinstance(rhs, dict):
                continue
            nms = [named(rhs)] if named(rhs) else \
                [y['name'] for y in walk(rhs) if is_int(y) and y.get('name')
                 and y['name'] not in ('TRUE', 'FALSE', 'NULL') and not y['name'].startswith('_dbus_assert')]
            if not nms:
                continue
            nm = None
            if lhs.get('k') == 'member':
                slot = 'store:%s.%s' % (lhs.get('rec'), lhs.get('field'))
            elif lhs.get('k') == 'un' and lhs.get('op') == '*' and is_ref(lhs.get('e')) and lhs['e'].get('kind') == 'param':
                slot = 'store:*%s' % lhs['e']['name']
            else:
                continue
            d = out.setdefault(slot, {})
            for nm in nms:
                d[nm] = d.get(nm, 0) + 1
    return out


def case_partition(f):
    """sorted list of label groups: case labels of f's switches that share their first statement (labels written one
    after the other, or an empty case running into the next one).  Keyed by the switch block."""
    groups = {}
    for bid, blk in f.blocks.items():
        cs = blk.get('case')
        if not cs:
            continue
        cur = blk
        seen = set()
        while cur['id'] not in seen:
            seen.add(cur['id'])
            if cur['events'] or cur.get('term') is not None or len(cur['succs']) != 1:
                break
            nxt = f.blocks.get(cur['succs'][0])
            if nxt is None:
                break
            cur = nxt
        groups.setdefault(cur['id'], []).append(cs[0])
    return sorted(sorted(g) for g in groups.values())


def fallthrough_profile(f):
    """sorted list of 'a->b': a case block that has statements of its own and runs into the next case label"""
    out = []
    for bid, blk in f.blocks.items():
        cs = blk.get('case')
        if not cs:
            continue
        # follow the chain of blocks of this case until a block with a case label or a jump away
        seen = set()
        cur = blk
        has_events = False
        while True:
            if cur['id'] in seen:
                break
            seen.add(cur['id'])
            if any(ev['ev'] in ('assign', 'call', 'incdec', 'decl') for ev in cur['events']):
                has_events = True
            t = cur.get('term')
            if t is not None or len(cur['succs']) != 1 or any(ev['ev'] == 'return' for ev in cur['events']):
                break
            nxt = f.blocks.get(cur['succs'][0])
            if nxt is None:
                break
            if nxt.get('case'):
                if has_events and nxt['case'][0] != cs[0]:
                    out.append('%s->%s' % (cs[0], nxt['case'][0]))
                break
            cur = nxt
    return sorted(out)


def offsets_profile(f):
    """{'+1': n, '-1': n, '+2': n, ...}: additions / subtractions of a small literal (1..8) inside index, length
    and size computations (anything but the loop-step forms `x += 1` / `x++`)."""
    out = {}
    tops = []
    for b, i, ev in f.events():
        tops.append(ev.get('init') if ev['ev'] == 'decl' else ev.get('e'))
    for blk in f.blocks.values():
        t = blk.get('term')
        if t and t.get('cond') is not None:
            tops.append(t['cond'])
    seen = set()
    for top in tops:
        if not isinstance(top, dict):
            continue
        for x in walk(top):
            if x.get('k') == 'bin' and x.get('op') in ('+', '-') and id(x) not in seen:
                seen.add(id(x))
                for side in ('l', 'r'):
                    y = x[side]
                    if is_int(y) and not y.get('name') and 1 <= abs(y['v']) <= 8:
                        if side == 'l' and x['op'] == '-':
                            continue
                        k = '%s%d' % (x['op'], y['v'])
                        out[k] = out.get(k, 0) + 1
    return out


def _swap(ref, cur):
    """(gone, new) when the two multisets have the same size and differ"""
    gone = {k: v - cur.get(k, 0) for k, v in ref.items() if v > cur.get(k, 0)}
    new = {k: v - ref.get(k, 0) for k, v in cur.items() if v > ref.get(k, 0)}
    if gone and new and sum(gone.values()) == sum(new.values()):
        return gone, new
    return None


def more_profiles(ck, prog):
    pid = ck.pid
    files = anchor_files(pid)
    path = os.path.join(VERIF, 'engine', 'baseline_profiles.json')
    if not os.path.exists(path):
        return
    with open(path) as fh:
        base = json.load(fh).get(getattr(ck, 'variant', 'A'), {})
    rr = ck.rule(pid + '.R', 'named constants a function returns or stores keep their identity in this property\'s '
                 'files: per return value / field / out-parameter, no constant is replaced by another one of the same '
                 'count (reference profile)', 'TAB',
                 breaks='the right branch reports the wrong reply code / validity reason / state: a neighbouring '
                        'enumerator in exactly one of several branches', floor=0)
    rf = ck.rule(pid + '.F', 'switch statements keep their fall-through structure in this property\'s files: a case '
                 'with statements of its own runs into the next label exactly where it does in the reference tree',
                 'TAB', breaks='a missing `break` executes the next case as well; an added one skips shared code',
                 floor=0)
    ro = ck.rule(pid + '.O', 'small additive offsets keep their value in this property\'s files: the `+ 1` / `- 1` / '
                 '`+ 4` ... of index, length and size computations of a function are those of the reference tree (a '
                 'replacement, not an addition or removal, is reported)', 'TAB',
                 breaks='an off-by-one in a length or position: the terminating NUL is not counted, a loop stops one '
                        'element early, a cursor lands one byte off', floor=0)
    nr = nf = no = 0
    for f in prog.funcs.values():
        if not in_scope(prog, ck.pid, f):
            continue
        ref = base.get(f.file, {}).get(f.name)
        if not ref:
            continue
        cur = stored_constants_profile(f)
        for slot, consts in cur.items():
            if slot not in ref.get('R', {}):
                continue
            nr += 1
            sw = _swap(ref['R'][slot], consts)
            key = '%s:%s' % (f.name, slot)
            if sw:
                rr.violation(key, f.name, f.file, f.line,
                             '%s now uses %s for %s where the reference tree uses %s' % (
                                 f.name, ', '.join(sorted(sw[1])), slot.replace('store:', ''), ', '.join(sorted(sw[0]))))
            else:
                rr.ok(key)
        if 'F' in ref:
            nf += 1
            cf = fallthrough_profile(f)
            merged = []
            if 'P' in ref:
                refp = [set(g) for g in ref['P']]
                curp = [set(g) for g in case_partition(f)]
                common = set().union(*refp) & (set().union(*curp) if curp else set()) if refp else set()
                a = sorted(sorted(g & common) for g in refp if g & common)
                b2 = sorted(sorted(g & common) for g in curp if g & common)
                if a != b2:
                    merged = [g for g in b2 if g not in a]
            if merged:
                rf.violation('%s:case-groups' % f.name, f.name, f.file, f.line,
                             'case labels are grouped differently from the reference tree: %s now share one body (a '
                             '`break` was lost or added between them)' % '; '.join(
                                 '{%s}' % ', '.join(chr(x) if 32 < x < 127 else str(x) for x in g) for g in merged[:3]))
            elif cf != ref['F'] and any(b.get('case') for b in f.blocks.values()):
                extra = sorted(set(cf) - set(ref['F']))
                missing = sorted(set(ref['F']) - set(cf))
                rf.violation('%s:fall-through' % f.name, f.name, f.file, f.line,
                             'switch fall-through changed: %s' % '; '.join(
                                 (['case %s now runs into case %s' % tuple(x.split('->')) for x in extra]) +
                                 (['case %s no longer runs into case %s' % tuple(x.split('->')) for x in missing])))
            else:
                rf.ok('%s:fall-through' % f.name)
        if ref.get('O'):
            no += 1
            sw = _swap(ref['O'], offsets_profile(f))
            key = '%s:offsets' % f.name
            if sw:
                ro.violation(key, f.name, f.file, f.line,
                             '%s now computes with %s where the reference tree has %s' % (
                                 f.name, ', '.join('%s (x%d)' % kv for kv in sorted(sw[1].items())),
                                 ', '.join('%s (x%d)' % kv for kv in sorted(sw[0].items()))))
            else:
                ro.ok(key)
    if nf == 0:
        rf.skip('no switch statement in %s' % ', '.join(sorted(files)))
    if nr == 0:
        rr.skip('no named constant is returned or stored in %s' % ', '.join(sorted(files)))
    if no == 0:
        ro.skip('no small additive offset in %s' % ', '.join(sorted(files)))


# ---------------------------------------------------------------------------
# a list walk ends at the head of the list it started from

def list_walks(ck, prog):
    from .cfg import estr, is_call, is_member, is_ref, written_lvalues
    pid = ck.pid
    files = anchor_files(pid)
    r = ck.rule(pid + '.L', 'list walks in this property\'s files end at the head of the list they started from: where '
                'a link variable obtained with _dbus_list_get_first_link / _last_link (&H) is stepped with '
                '_dbus_list_get_next_link / _prev_link, the step is given the same list H', 'TS',
                breaks='the lists are circular: stepping with another list\'s head never finds the end (the bus spins '
                       'for ever in the loop) or stops early', floor=0)

    def head_of(e):
        while e is not None and e.get('k') in ('paren', 'cast'):
            e = e.get('e')
        if e is not None and e.get('k') == 'un' and e['op'] == '&':
            return estr(e['e'])
        return '*' + estr(e) if e is not None else None

    def head_in_step(e):
        while e is not None and e.get('k') in ('paren', 'cast'):
            e = e.get('e')
        if e is not None and e.get('k') == 'un' and e['op'] == '*':
            x = e['e']
            if x.get('k') == 'un' and x['op'] == '&':
                return estr(x['e'])
            return '*' + estr(x)
        return None
    n = 0
    for f in prog.funcs.values():
        if not in_scope(prog, ck.pid, f):
            continue
        heads = {}
        ends = {}
        for b, i, ev in f.events():
            for lhs, how, rhs in written_lvalues(ev):
                if is_ref(lhs) and rhs is not None and \
                        is_call(rhs, ('_dbus_list_get_first_link', '_dbus_list_get_last_link')) and rhs['args']:
                    heads.setdefault(lhs.get('id'), set()).add(head_of(rhs['args'][0]))
                    ends.setdefault(lhs.get('id'), set()).add('first' if rhs['callee'].endswith('first_link') else 'last')
        if not heads:
            continue
        tops = []
        for b, i, ev in f.events():
            tops.append((ev.get('init') if ev['ev'] == 'decl' else ev.get('e'), ev['line']))
        for blk in f.blocks.values():
            t = blk.get('term')
            if t and t.get('cond') is not None:
                tops.append((t['cond'], t['line']))
        seen = set()
        for top, line in tops:
            if not isinstance(top, dict):
                continue
            for x in walk(top):
                if x.get('k') == 'cond' and x['c'].get('k') == 'bin' and x['c'].get('op') == '==':
                    # _dbus_list_get_prev_link: (link == *list) ? NULL : link->prev
                    for a, b2 in ((x['c']['l'], x['c']['r']), (x['c']['r'], x['c']['l'])):
                        stepped = x['b']
                        while isinstance(stepped, dict) and stepped.get('k') in ('paren', 'cast'):
                            stepped = stepped['e']
                        if is_ref(a) and a.get('id') in heads and head_in_step(b2) is not None and \
                                is_member(stepped, None, 'DBusList') and stepped['field'] in ('next', 'prev') and \
                                is_ref(stepped['base']) and stepped['base'].get('id') == a.get('id'):
                            h = head_in_step(b2)
                            key = '%s:%s back over %s' % (f.name, a['name'], h)
                            if key in seen:
                                continue
                            seen.add(key)
                            n += 1
                            want = {'first': 'next', 'last': 'prev'}
                            dirs = {want[e2] for e2 in ends.get(a['id'], ())}
                            if h in heads[a['id']] and stepped['field'] not in dirs and len(dirs) == 1:
                                r.violation(key + ':direction', f.name, f.file, line,
                                            '%s starts at the %s link of %s but steps to ->%s: the walk sees one element '
                                            'only' % (f.name, '/'.join(sorted(ends[a['id']])), h, stepped['field']))
                            elif h in heads[a['id']]:
                                r.ok(key)
                            else:
                                r.violation(key, f.name, f.file, line,
                                            '%s walks the list %s with the link %s but steps it against the head of %s' % (
                                                f.name, ' / '.join(sorted(heads[a['id']])), a['name'], h))
                    continue
                if x.get('k') != 'bin' or x.get('op') != '==':
                    continue
                for a, b2 in ((x['l'], x['r']), (x['r'], x['l'])):
                    if is_member(a, None, 'DBusList') and a['field'] in ('next', 'prev') and is_ref(a['base']) \
                            and a['base'].get('id') in heads:
                        h = head_in_step(b2)
                        if h is None:
                            continue
                        key = '%s:%s over %s' % (f.name, a['base']['name'], h)
                        if key in seen:
                            continue
                        seen.add(key)
                        n += 1
                        want = {'first': 'next', 'last': 'prev'}
                        dirs = {want[e2] for e2 in ends.get(a['base']['id'], ())}
                        if h in heads[a['base']['id']] and a['field'] not in dirs and len(dirs) == 1:
                            r.violation(key + ':direction', f.name, f.file, line,
                                        '%s starts at the %s link of %s but steps to ->%s: the walk sees one element '
                                        'only' % (f.name, '/'.join(sorted(ends[a['base']['id']])), h, a['field']))
                        elif h in heads[a['base']['id']]:
                            r.ok(key)
                        else:
                            r.violation(key, f.name, f.file, line,
                                        '%s walks the list %s with the link %s but steps it against the head of %s' % (
                                            f.name, ' / '.join(sorted(heads[a['base']['id']])), a['base']['name'], h))
    if n == 0:
        r.skip('no list walk in %s' % ', '.join(sorted(files)))


# ---------------------------------------------------------------------------
# the boolean function a compound condition computes

def condition_leaf_counts(f):
    """{operand spelling: how many branch conditions of f test it} (operands of && / || counted one by one)"""
    from .cfg import estr
    out = {}
    for b in f.blocks.values():
        t = b.get('term')
        if t and isinstance(t.get('cond'), dict) and t.get('kind') != 'SwitchStmt' and not t.get('split_bool'):
            if t.get('kind') == 'BinaryOperator':
                leaves = [t['cond']]
            else:
                leaves = []
                _logic_leaves(t['cond'], leaves)
                # the operands before the last one have their own (BinaryOperator) blocks
                leaves = leaves[-1:]
            for x in leaves:
                k = estr(x)
                out[k] = out.get(k, 0) + 1
    return out


def _logic_leaves(e, out):
    while isinstance(e, dict) and e.get('k') in ('paren', 'cast') and isinstance(e.get('e'), dict):
        e = e['e']
    if isinstance(e, dict) and e.get('k') == 'call' and e.get('callee') == '__builtin_expect' and e.get('args'):
        return _logic_leaves(e['args'][0], out)
    if isinstance(e, dict) and e.get('k') == 'bin' and e.get('op') in ('&&', '||'):
        _logic_leaves(e['l'], out)
        _logic_leaves(e['r'], out)
        return
    if isinstance(e, dict) and e.get('k') == 'un' and e.get('op') == '!':
        return _logic_leaves(e['e'], out)
    if isinstance(e, dict) and e.get('k') == 'bin' and e.get('op') in ('==', '!=') and \
            (is_int(e['r'], 0) or is_int(e['l'], 0)):
        # x != 0 / x == NULL: the leaf is x (with the polarity folded into the evaluation)
        out.append(e)
        return
    out.append(e)


def _logic_eval(e, val):
    from .cfg import estr
    while isinstance(e, dict) and e.get('k') in ('paren', 'cast') and isinstance(e.get('e'), dict):
        e = e['e']
    if isinstance(e, dict) and e.get('k') == 'call' and e.get('callee') == '__builtin_expect' and e.get('args'):
        return _logic_eval(e['args'][0], val)
    if isinstance(e, dict) and e.get('k') == 'bin' and e.get('op') in ('&&', '||'):
        a, b = _logic_eval(e['l'], val), _logic_eval(e['r'], val)
        return (a and b) if e['op'] == '&&' else (a or b)
    if isinstance(e, dict) and e.get('k') == 'un' and e.get('op') == '!':
        return not _logic_eval(e['e'], val)
    return val[estr(e)]


def condition_tables(f):
    """{'leaf1 | leaf2 | ...': [truth table bits, ...]} for every compound (&&, ||) condition of f; a table is
    normalised so that the all-false row is 0 (a condition and its negation are the same entry, since inverting a
    test and swapping its branches is not a change)."""
    from .cfg import estr
    import itertools
    tops = []
    for b, i, ev in f.events():
        e = ev.get('init') if ev['ev'] == 'decl' else ev.get('e')
        if ev['ev'] == 'assign' and isinstance(e, dict):
            e = e.get('r')
        tops.append(e)
    for blk in f.blocks.values():
        t = blk.get('term')
        if t and t.get('cond') is not None and t.get('kind') not in ('BinaryOperator',):
            tops.append(t['cond'])
    out = {}
    seen = set()
    for top in tops:
        if not isinstance(top, dict):
            continue
        x = top
        while isinstance(x, dict) and x.get('k') in ('paren', 'cast') and isinstance(x.get('e'), dict):
            x = x['e']
        while isinstance(x, dict) and x.get('k') == 'un' and x.get('op') == '!':
            x = x['e']
        if isinstance(x, dict) and x.get('k') == 'call' and x.get('callee') == '__builtin_expect' and x.get('args'):
            x = x['args'][0]
        if not (isinstance(x, dict) and x.get('k') == 'bin' and x.get('op') in ('&&', '||')):
            continue
        leaves = []
        _logic_leaves(top, leaves)
        names = sorted(set(estr(l) for l in leaves))
        if len(names) < 2 or len(names) > 8:
            continue
        key = ' | '.join(names)
        sig = (key, estr(top))
        if sig in seen:
            continue
        seen.add(sig)
        bits = []
        for vals in itertools.product((False, True), repeat=len(names)):
            bits.append(bool(_logic_eval(top, dict(zip(names, vals)))))
        if bits[0]:
            bits = [not b2 for b2 in bits]
        out.setdefault(key, []).append(''.join('1' if b2 else '0' for b2 in bits))
    # conditions whose top-level operator is && / ||: the CFG splits them into one block per operand (the branch
    # statement's own condition is only the last operand), so the boolean function is read off the decision graph
    preds = f.preds()
    for did, dblk in f.blocks.items():
        t = dblk.get('term')
        if not t or t.get('cond') is None or t.get('kind') in ('BinaryOperator', 'ConditionalOperator', 'SwitchStmt') \
                or len(dblk['succs']) != 2:
            continue
        region = set()
        allowed = {did} | set(dblk['succs'])
        changed = True
        while changed:
            changed = False
            for x in list(region | {did}):
                for p in preds.get(x, ()):
                    if p in region or p == did:
                        continue
                    pt = f.blocks[p].get('term') or {}
                    if pt.get('kind') == 'BinaryOperator' and pt.get('cond') is not None \
                            and all(sx in region or sx in allowed for sx in f.blocks[p]['succs']):
                        region.add(p)
                        changed = True
        if not region:
            continue
        entries = [x for x in region if any(p not in region for p in preds.get(x, ())) or not preds.get(x)]
        if len(entries) != 1:
            continue
        names = sorted(set([estr(f.blocks[x]['term']['cond']) for x in region] + [estr(t['cond'])]))
        if len(names) < 2 or len(names) > 8:
            continue
        targets = dblk['succs']
        bits = []
        ok = True
        for vals in itertools.product((False, True), repeat=len(names)):
            env = dict(zip(names, vals))
            cur = entries[0]
            for _ in range(len(region) + 2):
                blk = f.blocks[cur]
                tt = blk.get('term') or {}
                if cur != did and cur not in region:
                    break
                v = env[estr(tt['cond'])]
                cur = blk['succs'][0] if v else blk['succs'][1]
                if cur < 0:
                    ok = False
                    break
            if not ok or cur not in targets:
                ok = False
                break
            bits.append(cur == targets[0])
        if not ok:
            continue
        if bits[0]:
            bits = [not b2 for b2 in bits]
        key = ' | '.join(names)
        out.setdefault(key, []).append(''.join('1' if b2 else '0' for b2 in bits))
    return {k: sorted(v) for k, v in out.items()}


def condition_functions(ck, prog):
    pid = ck.pid
    files = anchor_files(pid)
    path = os.path.join(VERIF, 'engine', 'baseline_profiles.json')
    if not os.path.exists(path):
        return
    with open(path) as fh:
        base = json.load(fh).get(getattr(ck, 'variant', 'A'), {})
    r = ck.rule(pid + '.T', 'compound conditions compute the boolean function they compute in the reference tree, in this '
                'property\'s files: for every condition built with && / ||, the truth table over its operands (up to '
                'negation of the whole, operands identified by their spelling) is unchanged', 'DEC',
                breaks='an `&&` that became `||` (or the reverse), or a lost / added `!` on one operand: the branch is '
                       'taken in a state in which it must not be, typically one that ordinary use never reaches',
                floor=0)
    n = 0
    for f in prog.funcs.values():
        if not in_scope(prog, ck.pid, f):
            continue
        ref = base.get(f.file, {}).get(f.name, {}).get('T')
        if not ref:
            continue
        cur = condition_tables(f)
        # a condition that lost one of its operands
        for rk in ref:
            if rk in cur:
                continue
            rl = set(rk.split(' | '))
            subs = [ck2 for ck2 in cur if ck2 not in ref and set(ck2.split(' | ')) < rl
                    and len(set(ck2.split(' | '))) == len(rl) - 1]
            if len(subs) == 1 and len(rl) >= 3:
                lost1 = (rl - set(subs[0].split(' | '))).pop()
                # tested as often as before somewhere in the function (the condition was split into nested tests,
                # the operand moved): not dropped
                refc = base.get(f.file, {}).get(f.name, {}).get('Tc', {}).get(lost1)
                if refc is None or condition_leaf_counts(f).get(lost1, 0) >= refc:
                    continue
                n += 1
                lost = sorted(rl - set(subs[0].split(' | ')))
                r.violation('%s:%s' % (f.name, rk[:80]), f.name, f.file, f.line,
                            'the condition over {%s} no longer tests %s' % (rk, ', '.join(lost)))
        for key, tabs in cur.items():
            if key not in ref or len(ref[key]) != len(tabs):
                continue
            n += 1
            k2 = '%s:%s' % (f.name, key[:80])
            if sorted(ref[key]) == sorted(tabs):
                r.ok(k2)
            else:
                r.violation(k2, f.name, f.file, f.line,
                            'the condition over {%s} computes a different boolean function than in the reference tree '
                            '(truth table %s, reference %s; rows in the order of the sorted operands, all-false first)'
                            % (key, ','.join(tabs), ','.join(ref[key])))
    if n == 0:
        r.skip('no compound condition with a counterpart in the reference profile in %s' % ', '.join(sorted(files)))


# ---------------------------------------------------------------------------
# a value that is handed on was obtained somewhere

def never_set_values(ck, prog):
    from .cfg import estr, is_ref, written_lvalues
    pid = ck.pid
    files = anchor_files(pid)
    r = ck.rule(pid + '.U', 'what is handed on was obtained somewhere, in this property\'s files: a local that is passed to '
                'a callee is not one whose only assignments are its "unset" / "invalid" sentinel constant', 'TS',
                breaks='the code that fetched the value (the peer\'s gid, a position, a handle) was removed or moved under '
                       'a condition that is never true in this build, and the consumer silently works with "unset"',
                floor=0)
    n = 0
    for f in prog.funcs.values():
        if not in_scope(prog, ck.pid, f):
            continue
        writes = {}
        for b, i, ev in f.events():
            for lhs, how, rhs in written_lvalues(ev):
                if (is_ref(lhs) or 'k' not in lhs) and lhs.get('kind') == 'local' and 'id' in lhs:
                    writes.setdefault(lhs['id'], []).append((how, rhs, lhs.get('name'), ev['line']))
        for vid, ws in writes.items():
            vals = [(h, x) for h, x, nm, ln in ws if not (h == 'decl' and x is None)]
            if not vals:
                continue
            sentinel_only = all(h in ('=', 'decl') and isinstance(x, dict) and is_int(x) and x.get('name')
                                and ('UNSET' in x['name'] or x['name'].endswith('_INVALID')) for h, x in vals)
            if not sentinel_only:
                continue
            for b, i, c in f.calls():
                if any(is_ref(a) and a.get('id') == vid for a in c['args']):
                    n += 1
                    r.violation('%s:%s' % (f.name, ws[0][2]), f.name, f.file, c['line'],
                                '%s is handed to %s but is never given a value other than %s in %s' % (
                                    ws[0][2], c.get('callee'), estr(vals[0][1]), f.name))
                    break
    if n == 0:
        r.ok('no-sentinel-only-value-handed-on')


# ---------------------------------------------------------------------------
# fields of a fresh object are read after they are given their value

ZERO_ALLOCATORS = ('dbus_malloc0', 'calloc')


def fresh_object_reads(f):
    """[(line, field expr, line of the later store)] - reads of p->F where p is the zero-filled object this function
    just allocated, F has not been stored on some path to the read, and a plain store to p->F follows the read."""
    from .cfg import estr, is_ref, is_call, walk, written_lvalues, event_expr
    out = []
    fresh = {}
    for b, i, ev in f.events():
        for lhs, how, rhs in written_lvalues(ev):
            x = rhs
            while isinstance(x, dict) and x.get('k') in ('cast', 'paren'):
                x = x['e']
            if isinstance(x, dict) and is_call(x) and x.get('callee') in ZERO_ALLOCATORS and \
                    (is_ref(lhs) or 'k' not in lhs) and lhs.get('kind') == 'local' and 'id' in lhs:
                fresh.setdefault(lhs['id'], []).append((b, i))
    for vid, sites in fresh.items():
        if len(sites) != 1:
            continue
        b0, i0 = sites[0]

        def root(e):
            while e is not None and e.get('k') in ('member', 'paren', 'cast', 'sub'):
                e = e.get('base') if e.get('k') in ('member', 'sub') else e.get('e')
            return e

        def is_field(e):
            if e.get('k') != 'member':
                return False
            rt = root(e)
            return rt is not None and is_ref(rt) and rt.get('id') == vid

        TOP = None          # everything may have been stored (the object was handed to other code)

        def transfer(bid, start, written, collect):
            blk = f.blocks[bid]
            for idx in range(start, len(blk['events'])):
                ev = blk['events'][idx]
                stores = [(lhs, how) for lhs, how, rhs in written_lvalues(ev) if lhs.get('k') == 'member' and is_field(lhs)]
                lhs_ids = {id(l) for l, h in stores}
                if collect is not None and written is not TOP:
                    tops = []
                    if ev['ev'] == 'assign':
                        tops = [ev['e'].get('r')] + ([ev['e'].get('l')] if ev['e'].get('op') != '=' else [])
                    elif ev['ev'] == 'decl':
                        tops = [ev.get('init')]
                    elif ev['ev'] == 'return':
                        tops = [ev.get('e')]
                    elif ev['ev'] == 'call':
                        tops = list(ev['e']['args'])
                    for top in tops:
                        if not isinstance(top, dict):
                            continue
                        for x in walk(top):
                            if x.get('k') == 'un' and x.get('op') == '&':
                                continue
                            if is_field(x) and id(x) not in lhs_ids:
                                k = estr(x)
                                if not any(k == w or k.startswith(w + '.') or w.startswith(k + '.') for w in written):
                                    collect.append((bid, idx, ev['line'], k))
                if ev['ev'] == 'call' and not (ev['e'].get('callee') or '').startswith('_dbus_real_assert'):
                    for a in ev['e']['args']:
                        rt = root(a['e'] if a.get('k') == 'un' and a.get('op') == '&' else a)
                        if rt is not None and is_ref(rt) and rt.get('id') == vid:
                            written = TOP
                if written is not TOP:
                    for lhs, how in stores:
                        written = written | {estr(lhs)}
            if collect is not None and written is not TOP:
                t = blk.get('term')
                if t and isinstance(t.get('cond'), dict):
                    for x in walk(t['cond']):
                        if is_field(x):
                            k = estr(x)
                            if not any(k == w or k.startswith(w + '.') or w.startswith(k + '.') for w in written):
                                collect.append((bid, len(blk['events']), t.get('line'), k))
            return written
        # must-written at block entry (intersection over predecessors), blocks reachable from the allocation
        IN = {}
        out0 = transfer(b0, i0 + 1, frozenset(), None)
        work = [(s2, out0) for s2 in f.blocks[b0]['succs'] if s2 is not None and s2 in f.blocks]
        guard = 0
        while work and guard < 5000:
            guard += 1
            bid, w = work.pop()
            if bid == b0:
                continue
            old = IN.get(bid, 'none')
            if old == 'none':
                new = w
            elif old is TOP:
                new = w
            elif w is TOP:
                new = old
            else:
                new = old & w
            if old != 'none' and new == old:
                continue
            IN[bid] = new
            o = transfer(bid, 0, new, None)
            for s2 in f.blocks[bid]['succs']:
                if s2 is not None and s2 in f.blocks:
                    work.append((s2, o))
        reads = []
        transfer(b0, i0 + 1, frozenset(), reads)
        for bid, w in IN.items():
            transfer(bid, 0, w, reads)
        if not reads:
            continue
        # a plain store of the same field after the read
        stores = {}
        for b, i, ev in f.events():
            for lhs, how, rhs in written_lvalues(ev):
                if how == '=' and lhs.get('k') == 'member' and is_field(lhs) and not is_int(rhs, 0):
                    stores.setdefault(estr(lhs), []).append((b, i, ev['line']))
        from .cfg import reach_from
        for bid, idx, line, k in reads:
            for sb, si, sl in stores.get(k, []):
                later = (sb == bid and si > idx) or (sb != bid and sb in reach_from(f, f.blocks[bid]['succs']))
                if later:
                    out.append((line, k, sl))
                    break
    return out


def fresh_reads(ck, prog):
    pid = ck.pid
    files = anchor_files(pid)
    r = ck.rule(pid + '.Z', 'a constructor reads a field of the object it is building only after giving it its value, in '
                'this property\'s files: no read of p->F (p the zero-filled allocation of this function, not yet handed '
                'to other code) that can be reached with F still unset and is followed by the store to p->F', 'TS',
                breaks='a default derived from another field is computed from the zero the allocator left there, not from '
                'the value stored two lines later: a send rule\'s requested_reply default is FALSE for allow rules',
                floor=0)
    n = 0
    for f in prog.funcs.values():
        if not in_scope(prog, ck.pid, f):
            continue
        for line, k, sl in fresh_object_reads(f):
            n += 1
            r.violation('%s:%s' % (f.name, k), f.name, f.file, line,
                        '%s is read while it still holds the allocator\'s zero; it is given its value later (line %s)' % (k, sl))
    if n == 0:
        r.ok('no-read-before-store-in-constructors')


# ---------------------------------------------------------------------------
# trivial accessors name the field they access

def accessor_fields(prog, f):
    """(kind, field accessed, field named, line) for a trivial getter / setter whose name ends in a field name of the
    record it accesses; None when f is not of that shape."""
    import re
    from .cfg import written_lvalues, is_ref

    def strip(e):
        while isinstance(e, dict) and e.get('k') in ('paren', 'cast'):
            e = e['e']
        return e

    def named(rec, suffix):
        r = prog.records.get(rec)
        if not r:
            return None
        names = {x['name'] for x in r['fields']}
        parts = suffix.split('_')
        for i in range(len(parts)):
            s2 = '_'.join(parts[i:])
            if s2 in names:
                return s2
        return None
    m = re.search(r'_get_(\w+)$', f.name)
    if m:
        rets = [ev for b, i, ev in f.events() if ev['ev'] == 'return' and ev.get('e') is not None]
        if len(rets) == 1:
            e = strip(rets[0]['e'])
            if isinstance(e, dict) and e.get('k') == 'member' and e.get('rec'):
                cand = named(e['rec'], m.group(1))
                if cand:
                    return ('returns', e['field'], cand, rets[0]['line'])
    m = re.search(r'_set_(\w+)$', f.name)
    if m and len(f.params) >= 2:
        stores = [(l, h, r, ev['line']) for b, i, ev in f.events() for l, h, r in written_lvalues(ev)
                  if l.get('k') == 'member' and h == '=']
        if len(stores) == 1:
            l, h, r, line = stores[0]
            r = strip(r)
            if isinstance(r, dict) and is_ref(r) and r.get('kind') == 'param' and l.get('rec'):
                cand = named(l['rec'], m.group(1))
                if cand:
                    return ('stores', l['field'], cand, line)
    return None


def accessors(ck, prog):
    pid = ck.pid
    files = anchor_files(pid)
    r = ck.rule(pid + '.H', 'trivial accessors access the field they are named after, in this property\'s files: a '
                'function `..._get_<field>` that just returns a member, or `..._set_<field>` that just stores its '
                'argument, of a record that has a field `<field>`, uses that field', 'TAB',
                breaks='every caller of the accessor silently works with the neighbouring field: the activation timer runs '
                'for the authentication timeout, "descriptor passing was negotiated" answers "is possible on this '
                'socket"', floor=0)
    n = 0
    for f in prog.funcs.values():
        if not in_scope(prog, ck.pid, f):
            continue
        a = accessor_fields(prog, f)
        if a is None:
            continue
        kind, got, want, line = a
        n += 1
        key = '%s:%s' % (f.name, want)
        if got != want and not got.endswith('_' + want) and not want.endswith('_' + got):
            r.violation(key, f.name, f.file, line, '%s %s %s, not the field %s it is named after' % (f.name, kind, got, want))
        else:
            r.ok(key)
    if n == 0:
        r.ok('no-trivial-accessors-in-scope')


# ---------------------------------------------------------------------------
# a list link that was given away is not read again

LINK_SINKS = {'_dbus_list_remove_link': 1, '_dbus_list_free_link': 0, 'free_link': 0}


def stale_links(ck, prog):
    from .cfg import Explorer, estr, is_ref, is_member, walk as cwalk, written_lvalues, event_expr
    pid = ck.pid
    r = ck.rule(pid + '.X', 'a list link that was removed, freed, or handed to a callback that may remove it (an indirect '
                'call given the link itself) is not read again before the variable is given a new link: walks that '
                'remove while walking fetch the next link first (path-sensitive, per function in this property\'s scope)',
                'TS', breaks='the walk continues from a link that is no longer in the list: it ends after the first '
                'removal (the remaining pending replies of a disconnected callee are never expired) or reads freed '
                'memory', floor=0)
    n = 0
    for f in prog.funcs.values():
        if not in_scope(prog, ck.pid, f):
            continue
        sinks = {}
        for b, i, c in f.calls():
            idx = LINK_SINKS.get(c.get('callee'))
            if idx is not None and len(c['args']) > idx and is_ref(c['args'][idx]) and c['args'][idx].get('kind') == 'local':
                sinks[c['id']] = c['args'][idx]['id']
            elif c.get('callee') is None:
                for a in c['args']:
                    if is_ref(a) and a.get('kind') == 'local' and 'DBusList *' in (a.get('t') or ''):
                        sinks[c['id']] = a['id']
        if not sinks:
            continue
        n += 1
        names = {}

        def on_event(user, ev, ctx, sinks=sinks, names=names):
            gone = user
            e = event_expr(ev)
            # reads of a stale link
            if gone:
                tops = []
                if ev['ev'] == 'assign':
                    tops = [ev['e'].get('r')]
                    if ev['e']['l'].get('k') != 'ref':
                        tops.append(ev['e']['l'])
                elif ev['ev'] == 'decl':
                    tops = [ev.get('init')]
                elif ev['ev'] == 'call':
                    tops = list(ev['e']['args'])
                elif ev['ev'] in ('return', 'deref', 'sub', 'incdec'):
                    tops = [ev.get('e')]
                for top in tops:
                    if not isinstance(top, dict):
                        continue
                    for x in cwalk(top):
                        if x.get('k') == 'member' and is_ref(x.get('base')) and x['base'].get('id') in gone \
                                and x.get('rec') == 'DBusList':
                            ctx.report('%s is read after the link %s was given away' % (estr(x), x['base']['name']),
                                       ev['line'], key=(x['base']['name'], ev['line']))
            if ev['ev'] == 'call' and ev['e'].get('id') in sinks:
                gone = frozenset(gone | {sinks[ev['e']['id']]})
            for lhs, how, rhs in written_lvalues(ev):
                if (is_ref(lhs) or 'k' not in lhs) and lhs.get('id') in gone and how in ('=', 'decl'):
                    gone = frozenset(gone - {lhs['id']})
            return gone

        def on_edge(user, bid, idx, atom, sense, ctx):
            # a branch condition that reads the stale link
            t = f.blocks[bid].get('term')
            if user and t and isinstance(t.get('cond'), dict):
                for x in cwalk(t['cond']):
                    if x.get('k') == 'member' and is_ref(x.get('base')) and x['base'].get('id') in user \
                            and x.get('rec') == 'DBusList':
                        ctx.report('%s is read after the link %s was given away' % (estr(x), x['base']['name']),
                                   t.get('line'), key=(x['base']['name'], t.get('line')))
            return user
        try:
            ex = Explorer(f, init=frozenset(), on_event=on_event, on_edge=on_edge, track=None, cap=120000).run()
        except AnalysisBroken:
            r.note('%s: too many paths; no verdict' % f.name)
            continue
        key = '%s:links-not-read-after-removal' % f.name
        if ex.reports:
            r.from_reports(ex.reports, keyfn=lambda k, rep, f=f: '%s:%s-stale' % (f.name, k[0]))
        else:
            r.ok(key)
    if n == 0:
        r.ok('no-link-is-given-away-in-scope')


# ---------------------------------------------------------------------------
# carries and borrows between the parts of a split number come in pairs

RADIXES = {1000, 1000000, 1000000000}


def carry_sites(f):
    """[(line, low part, op, radix, paired?)] for `low += R` / `low -= R` with R a radix constant in a block"""
    from .cfg import written_lvalues, estr
    out = []
    for bid, blk in f.blocks.items():
        adj = []
        unit = []
        for ev in blk['events']:
            for lhs, how, rhs in written_lvalues(ev):
                if how in ('+=', '-=') and isinstance(rhs, dict) and is_int(rhs):
                    if abs(rhs['v']) in RADIXES:
                        adj.append((ev['line'], estr(lhs), how, abs(rhs['v'])))
                    elif rhs['v'] == 1:
                        unit.append((estr(lhs), how))
                elif how in ('++', '--'):
                    unit.append((estr(lhs), '+=' if how == '++' else '-='))
        for line, low, how, radix in adj:
            opposite = '-=' if how == '+=' else '+='
            paired = any(h == opposite and name != low for name, h in unit)
            out.append((line, low, how, radix, paired))
    return out


def carries(ck, prog):
    pid = ck.pid
    r = ck.rule(pid + '.M', 'a number kept in two parts (seconds and milliseconds / microseconds / nanoseconds) is '
                'normalised in pairs: a block that adds the radix (1000, 10^6, 10^9) to the low part takes 1 from another '
                'variable, one that subtracts the radix adds 1, in this property\'s scope', 'PAIR',
                breaks='the remaining time of a timeout comes out a whole second too large: it looks as if the clock had '
                'gone backwards, the timer is restarted again and again, and the start timeout of an activation never '
                'fires', floor=0)
    n = 0
    for f in prog.funcs.values():
        if not in_scope(prog, ck.pid, f):
            continue
        for line, low, how, radix, paired in carry_sites(f):
            n += 1
            key = '%s:%s%s%d' % (f.name, low, how, radix)
            if paired:
                r.ok(key)
            else:
                r.violation(key, f.name, f.file, line, '%s %s %d without the matching %s 1 on the high part' % (
                    low, how, radix, '-=' if how == '+=' else '+='))
    if n == 0:
        r.ok('no-split-number-normalised-in-scope')


# ---------------------------------------------------------------------------
# which function a function calls

def callee_sequence(f):
    """callee names in source order (line, then call id), without logging / assertion calls"""
    cs = []
    for b, i, c in f.calls():
        cal = c.get('callee')
        if not cal or cal.startswith('_dbus_verbose') or cal.startswith('_dbus_real_assert') or cal.startswith('__builtin'):
            continue
        cs.append((c.get('line') or 0, c.get('id') or 0, cal))
    return [x[2] for x in sorted(cs)]


def callee_profile(f):
    out = {}
    for b, i, c in f.calls():
        cal = c.get('callee')
        if not cal or cal.startswith('_dbus_verbose') or cal.startswith('_dbus_real_assert') or cal.startswith('__builtin'):
            continue
        out[cal] = out.get(cal, 0) + 1
    return out


def fields_written(f):
    """sorted ["Record.field"] this function stores to"""
    from .cfg import written_lvalues
    out = set()
    for b, i, ev in f.events():
        for lhs, how, rhs in written_lvalues(ev):
            if lhs.get('k') == 'member' and lhs.get('rec') and how != '&arg':
                out.add('%s.%s' % (lhs['rec'], lhs['field']))
    return sorted(out)


# zero-filling or not is the constructor's business as long as every field is given a value (Cxx.Z, Cxx.N look at that)
ALLOCATORS = {'dbus_malloc', 'dbus_malloc0', 'malloc', 'calloc'}


def callee_identity(ck, prog):
    pid = ck.pid
    files = anchor_files(pid)
    path = os.path.join(VERIF, 'engine', 'baseline_profiles.json')
    if not os.path.exists(path):
        return
    with open(path) as fh:
        allb = json.load(fh)
    base = allb.get(getattr(ck, 'variant', 'A'), {})
    known = set(allb.get('#functions', []))
    r = ck.rule(pid + '.V', 'a function calls the functions it calls in the reference tree, in this property\'s files: '
                'reported is a replacement of one callee by another where both functions exist in the reference tree '
                'and in this tree (so neither a rename nor a new helper), with the number of calls unchanged', 'TAB',
                breaks='a wrapper forwards to the sibling of the function it is named after (the size setter calls the '
                       'descriptor-count setter), or a look-up goes through the accessor of the other of two similar '
                       'things', floor=5)
    n = 0
    have = set(prog.by_name)
    for f in prog.funcs.values():
        if not in_scope(prog, ck.pid, f):
            continue
        ref = base.get(f.file, {}).get(f.name, {}).get('V')
        if not ref:
            continue
        cur = callee_profile(f)
        n += 1
        gone = {k: v - cur.get(k, 0) for k, v in ref.items() if v > cur.get(k, 0)}
        new = {k: v - ref.get(k, 0) for k, v in cur.items() if v > ref.get(k, 0)}
        key = '%s:callees' % f.name
        if gone and new and sum(gone.values()) == sum(new.values()) and len(gone) == 1 and len(new) == 1:
            g, h = next(iter(gone)), next(iter(new))
            def sig(nm):
                fs = prog.by_name.get(nm) or []
                return (fs[0].ret, tuple(p.get('t') for p in fs[0].params)) if fs else None
            # siblings: same return and parameter types (the call still compiles with the same arguments)
            # the rest of the function calls what it called, in the order it called it: the swap is the whole change
            rs = base.get(f.file, {}).get(f.name, {}).get('Vs')
            cs2 = callee_sequence(f)
            only_swap = rs is not None and len(rs) == len(cs2) and \
                all(a == b2 or (a == g and b2 == h) for a, b2 in zip(rs, cs2))
            if only_swap and g in have and h in have and g in known and h in known and sig(g) == sig(h) and sig(g) is not None \
                    and not any(w in g or w in h for w in ('verbose', 'warn', 'log')) \
                    and not {g, h} <= ALLOCATORS:
                line = next((c['line'] for b, i, c in f.calls(h)), f.line)
                r.violation(key, f.name, f.file, line, '%s now calls %s where the reference tree calls %s' % (f.name, h, g))
                continue
        r.ok(key)


def cursor_loops(ck, prog):
    pid = ck.pid
    files = anchor_files(pid)
    from . import lib

    class Probe:
        n = 0
        def violation(self, *a, **k): self.n += 1
        def ok(self, *a, **k): self.n += 1
    pr = Probe()
    lib.cursor_loops_advance(prog, pr, files, floor=0)
    if not pr.n:
        return
    r = ck.rule(pid + '.G', 'every loop over a value cursor ("while the reader / iterator is not at the end") advances '
                'that cursor on each way round, including the `continue` and skip paths, in this property\'s files '
                '(cycles of the loop that avoid every advancing call are reported)', 'PAIR',
                breaks='a message with an element the loop skips (an unknown header field, an argument of another '
                'type) makes the scan look at the same element forever: the process that received it hangs', floor=1)
    lib.cursor_loops_advance(prog, r, files, floor=1)


# ---------------------------------------------------------------------------
# declaration-level rules: flag constants and bit-field capacity

# reviewed overlapping mask names: frozenset({a, b}) -> reason
FLAGBITS_REVIEWED = {
}


def _unparen(e):
    while isinstance(e, dict) and e.get('k') in ('paren', 'cast') and isinstance(e.get('e'), dict):
        e = e['e']
    return e


def flag_bits(ck, prog):
    """Named constants that are tested against / set in the same word within one function select
    disjoint bits."""
    from .cfg import estr
    pid = ck.pid
    r = ck.rule(pid + '.D', 'named flag constants applied with & | &= |= to the same word inside one function of '
                'this property\'s files are distinct non-zero bits where they are single-bit constants (two flag names never share a '
                'bit, no flag is 0; multi-bit field masks are left alone)', 'TAB',
                breaks='two flags given the same bit (an enumerator renumbered, a copy-pasted `1 << k`) make the '
                       'test for one succeed when only the other is set: e.g. a path_namespace match rule is '
                       'matched as an exact path', floor=1)
    n = 0
    for f in prog.funcs.values():
        if not in_scope(prog, pid, f):
            continue
        groups = {}
        tops = []
        for b, i, ev in f.events():
            e = ev.get('init') if ev['ev'] == 'decl' else ev.get('e')
            if isinstance(e, dict):
                tops.append((e, ev['line']))
        for blk in f.blocks.values():
            t = blk.get('term')
            if t and t.get('cond') is not None:
                tops.append((t['cond'], t['line']))
        for top, line in tops:
            for x in walk(top):
                if x.get('k') not in ('bin', 'assign') or x.get('op') not in ('&', '|', '&=', '|='):
                    continue
                for a, b2 in ((x.get('l'), x.get('r')), (x.get('r'), x.get('l'))):
                    a, b2 = _unparen(a), _unparen(b2)
                    if isinstance(b2, dict) and b2.get('k') == 'un' and b2.get('op') == '~':
                        b2 = _unparen(b2.get('e'))
                    if not (isinstance(a, dict) and isinstance(b2, dict)):
                        continue
                    if b2.get('k') == 'int' and b2.get('name') and a.get('k') in ('ref', 'member'):
                        # two locals of the same name in different scopes are different words
                        word = estr(a) if a.get('k') != 'ref' else '%s#%s' % (estr(a), a.get('id'))
                        groups.setdefault(word, {}).setdefault(b2['name'], (b2['v'], line))
        for word, names in groups.items():
            # flags are single bits; multi-bit constants are field masks (e.g. the wait-status macros) and are
            # not compared here
            items = sorted((nm, vl) for nm, vl in names.items() if vl[0] & (vl[0] - 1) == 0)
            if len(items) < 2:
                continue
            word = word.split('#')[0]
            for nm, (v, line) in items:
                n += 1
                key = '%s:%s:%s' % (f.name, word, nm)
                if v == 0:
                    r.violation(key, f.name, f.file, line, 'the flag %s applied to %s is 0: it selects no bit' % (nm, word))
                    continue
                clash = [o for o, (ov, _) in items if o != nm and (ov & v)
                         and frozenset((o, nm)) not in FLAGBITS_REVIEWED]
                if clash:
                    r.violation(key, f.name, f.file, line,
                                'the flags %s (0x%x) and %s applied to %s share a bit: testing one succeeds when '
                                'only the other is set' % (nm, v, ', '.join(clash), word))
                else:
                    r.ok(key)
    if n == 0:
        r.skip('no named flag constant is applied to a word in the files of this property')


def bitfield_capacity(ck, prog):
    """A constant stored into or compared with an unsigned bit-field fits the field."""
    from .cfg import estr
    pid = ck.pid
    r = ck.rule(pid + '.Q', 'every integer constant that is stored into, or compared with, a bit-field in this '
                'property\'s files fits the declared width of the field', 'TAB',
                breaks='a bit-field narrowed below the largest value it has to hold (a tristate kept in 1 bit) '
                       'truncates the stored constant: the value read back is a different enumerator, and a '
                       'comparison with the lost value is never true', floor=1)
    width = {}

    def collect(rec):
        for fl in rec['fields']:
            if fl.get('bits'):
                width[(rec['name'], fl['name'])] = fl['bits']
            if isinstance(fl.get('anon'), dict):       # unnamed struct / union nested in the record
                collect(fl['anon'])
    for rn, rec in prog.records.items():
        collect(dict(rec, name=rec.get('name', rn)))
    n = 0
    for f in prog.funcs.values():
        if not in_scope(prog, pid, f):
            continue
        tops = []
        for b, i, ev in f.events():
            e = ev.get('init') if ev['ev'] == 'decl' else ev.get('e')
            if isinstance(e, dict):
                tops.append((e, ev['line']))
        for blk in f.blocks.values():
            t = blk.get('term')
            if t and t.get('cond') is not None:
                tops.append((t['cond'], t['line']))
        seen = set()
        for top, line in tops:
            for x in walk(top):
                if x.get('k') not in ('bin', 'assign') or x.get('op') not in ('=', '==', '!='):
                    continue
                for a, c in ((x.get('l'), x.get('r')), (x.get('r'), x.get('l'))):
                    a, c = _unparen(a), _unparen(c)
                    if not (isinstance(a, dict) and isinstance(c, dict)):
                        continue
                    if a.get('k') != 'member' or (a.get('rec'), a.get('field')) not in width or c.get('k') != 'int':
                        continue
                    if x.get('op') == '=' and a is not _unparen(x.get('l')):
                        continue
                    w = width[(a['rec'], a['field'])]
                    key = '%s:%s%s%s' % (f.name, estr(a), x['op'], c.get('name') or c['v'])
                    if key in seen:
                        continue
                    seen.add(key)
                    n += 1
                    if 0 <= c['v'] < (1 << w):
                        r.ok(key)
                    else:
                        r.violation(key, f.name, f.file, line,
                                    '%s is a %d-bit field and cannot hold %s (%d): the value is truncated / the '
                                    'comparison is never true' % (estr(a), w, c.get('name') or 'the constant', c['v']))
    if n == 0:
        r.skip('no constant is stored into or compared with a bit-field in the files of this property')


def run(ck, prog):
    error_discipline(ck, prog)
    onebit_stores(ck, prog)
    boundary_comparisons(ck, prog)
    constant_arguments(ck, prog)
    field_widths(ck, prog)
    allocation_results(ck, prog)
    widened_sentinels(ck, prog)
    argument_roles(ck, prog)
    more_profiles(ck, prog)
    list_walks(ck, prog)
    condition_functions(ck, prog)
    never_set_values(ck, prog)
    callee_identity(ck, prog)
    carries(ck, prog)
    stale_links(ck, prog)
    accessors(ck, prog)
    fresh_reads(ck, prog)
    cursor_loops(ck, prog)
    flag_bits(ck, prog)
    bitfield_capacity(ck, prog)
