"""Fact base: runs the dbusfacts extractor over /repo's compile database and
loads the merged, resolved program (functions with CFGs, tables, enums, records,
macros, call graph).  Nothing here decides a property."""
import json
import os
import shutil
import subprocess
import sys
import tempfile
import time
from concurrent.futures import ThreadPoolExecutor

REPO = os.environ.get('VERIF_REPO', '/repo')
VERIF = os.path.dirname(os.path.dirname(os.path.abspath(__file__)))
DBUSFACTS = os.path.join(VERIF, 'tools', 'bin', 'dbusfacts')
BUILD = os.path.join(REPO, '_build')


class AnalysisBroken(Exception):
    """The analysis cannot give a verdict (exit 2): anchor vanished, floor not
    reached, unit does not parse, state cap exceeded."""


def rel(path):
    path = os.path.normpath(path)
    if path.startswith(REPO + '/'):
        return path[len(REPO) + 1:]
    return path


# ---------------------------------------------------------------------------
# compile database

def load_compdb():
    if not os.path.exists(os.path.join(BUILD, 'build.ninja')):
        raise AnalysisBroken('no %s/build.ninja: run MANIFEST.setup_cmd' % BUILD)
    try:
        out = subprocess.run(['ninja', '-C', BUILD, '-t', 'compdb'],
                             check=True, capture_output=True, text=True).stdout
    except Exception as e:  # pragma: no cover
        raise AnalysisBroken('ninja -t compdb failed: %s' % e)
    db = json.loads(out)
    units = {}
    pref = ['dbus-1', 'dbus-daemon', 'dbus-daemon-internal',
            'dbus-daemon-launch-helper', 'launch-helper-internal',
            'dbus-internal']
    for e in db:
        f = e['file']
        if not f.endswith('.c'):
            continue
        r = rel(f)
        if not (r.startswith('dbus/') or r.startswith('bus/')):
            continue
        try:
            tgt = e['output'].split('CMakeFiles/')[1].split('.dir')[0]
        except IndexError:
            tgt = ''
        rank = pref.index(tgt) if tgt in pref else len(pref)
        if r not in units or rank < units[r][0]:
            units[r] = (rank, tgt, e)
    return {r: (t, e) for r, (k, t, e) in units.items()}


def clang_args(entry, extra_inc=None, extra_defs=()):
    import shlex
    toks = shlex.split(entry['command'])
    args = []
    skip = 0
    for i, t in enumerate(toks[1:]):
        if skip:
            skip -= 1
            continue
        if t in ('-MD', '-c', '-g'):
            continue
        if t in ('-MT', '-MF', '-o'):
            skip = 1
            continue
        if t == entry['file']:
            continue
        if t.startswith('-W'):
            continue
        args.append(t)
    args.append('-std=gnu11')
    args.append('-w')
    if extra_inc:
        args.insert(0, '-I' + extra_inc)
    for d in extra_defs:
        args.append(d)
    return args


# ---------------------------------------------------------------------------
# configuration variants (same source, edited copy of config.h placed first)

VARIANTS = {
    'A': {},   # pinned build
    'B': {'undef': ['DBUS_ENABLE_EMBEDDED_TESTS', 'DBUS_ENABLE_VERBOSE_MODE'],
          'define': ['DBUS_DISABLE_ASSERT']},
    'C': {'define': ['DBUS_DISABLE_CHECKS']},
    'D': {'undef': ['HAVE_UNIX_FD_PASSING']},
}


def make_variant_include(variant, workdir):
    """Write an edited copy of _build/config.h into workdir/inc-<variant>."""
    spec = VARIANTS[variant]
    if not spec:
        return None
    inc = os.path.join(workdir, 'inc-' + variant)
    os.makedirs(inc, exist_ok=True)
    src = open(os.path.join(BUILD, 'config.h')).read().split('\n')
    out = []
    for line in src:
        s = line.strip()
        dropped = False
        for u in spec.get('undef', []):
            if s.startswith('#define ' + u + ' ') or s == '#define ' + u:
                out.append('/* verif variant %s: #undef %s */' % (variant, u))
                dropped = True
        if not dropped:
            out.append(line)
    pre = ['#define %s 1' % d for d in spec.get('define', [])]
    # defines go right after the include guard opener
    text = '\n'.join(out)
    marker = '#define _DBUS_CONFIG_H'
    if marker in text:
        text = text.replace(marker, marker + '\n' + '\n'.join(pre), 1)
    else:
        text = '\n'.join(pre) + '\n' + text
    open(os.path.join(inc, 'config.h'), 'w').write(text)
    return inc


# ---------------------------------------------------------------------------
# extraction

def extract(units=None, variant='A', workdir=None, keep=False):
    """Run dbusfacts on the given units (relative paths; None = all of dbus/ and
    bus/).  Returns (list of per-unit dicts, stats)."""
    if not os.path.exists(DBUSFACTS):
        raise AnalysisBroken('extractor not built: run `make -C %s/tools`' % VERIF)
    t0 = time.time()
    db = load_compdb()
    if units is None:
        sel = sorted(db)
    else:
        sel = []
        for u in units:
            if u not in db:
                raise AnalysisBroken('unit %s is not in the compile database' % u)
            sel.append(u)
    own = workdir is None
    if own:
        base = os.path.join(VERIF, '.work')
        os.makedirs(base, exist_ok=True)
        workdir = tempfile.mkdtemp(prefix='facts-', dir=base)
    inc = make_variant_include(variant, workdir)

    def one(u):
        tgt, e = db[u]
        out = os.path.join(workdir, u.replace('/', '__') + '.' + variant + '.json')
        cmd = [DBUSFACTS, '-o', out, e['file'], '--'] + clang_args(e, inc)
        p = subprocess.run(cmd, capture_output=True, text=True, cwd=BUILD)
        if p.returncode != 0 or not os.path.exists(out):
            return u, None, (p.stderr or '')[-2000:]
        with open(out) as fh:
            d = json.load(fh)
        return u, d, ''

    res = []
    errs = []
    with ThreadPoolExecutor(max_workers=16) as ex:
        for u, d, err in ex.map(one, sel):
            if d is None:
                errs.append((u, err))
            else:
                res.append((u, d))
    if own and not keep:
        shutil.rmtree(workdir, ignore_errors=True)
    if errs:
        raise AnalysisBroken('units failed to parse in variant %s: %s' % (
            variant, '; '.join('%s: %s' % (u, e.strip().split('\n')[-1] if e.strip() else '?')
                               for u, e in errs)))
    stats = {'units': len(res), 'variant': variant, 'extract_s': round(time.time() - t0, 2)}
    return res, stats


# ---------------------------------------------------------------------------
# program model

# With DBUS_DISABLE_ASSERT dbus-string.h turns a few accessors into macros over the
# private fields of DBusString.  They are folded back into (pseudo) calls so that rules see
# the same program shape in every configuration variant.
_PSEUDO_NEXT = [1000000]


def _pseudo_call(name, args, line):
    _PSEUDO_NEXT[0] += 1
    return {'k': 'call', 'callee': name, 'args': args, 'id': _PSEUDO_NEXT[0], 'line': line, 't': 'int',
            'pseudo': True}


def _fold_string_macros(e, line, found):
    """Rewrite in place; returns the (possibly new) node."""
    if isinstance(e, list):
        for i, x in enumerate(e):
            e[i] = _fold_string_macros(x, line, found)
        return e
    if not isinstance(e, dict):
        return e
    for k, v in list(e.items()):
        if isinstance(v, (dict, list)):
            e[k] = _fold_string_macros(v, line, found)
    if e.get('k') == 'member' and e.get('rec') == 'DBusString' and e.get('field') == 'dummy2':
        n = _pseudo_call('_dbus_string_get_length', [e['base']], line)
        found.append(n)
        return n
    if e.get('k') == 'sub' and isinstance(e.get('base'), dict) and e['base'].get('k') == 'member' \
            and e['base'].get('rec') == 'DBusString' and e['base'].get('field') == 'dummy1':
        n = _pseudo_call('_dbus_string_get_byte', [e['base']['base'], e['idx']], line)
        n['t'] = 'unsigned char'
        found.append(n)
        return n
    return e


def _normalise_blocks(blocks):
    for b in blocks:
        out = []
        for ev in b['events']:
            found = []
            if ev['ev'] == 'decl':
                if ev.get('init') is not None:
                    ev['init'] = _fold_string_macros(ev['init'], ev['line'], found)
            elif ev.get('e') is not None:
                ev['e'] = _fold_string_macros(ev['e'], ev['line'], found)
            if ev['ev'] in ('sub', 'deref') and isinstance(ev.get('e'), dict) and ev['e'].get('pseudo'):
                # the macro's own subscript event: replaced by the pseudo call event below
                for n in found:
                    out.append({'ev': 'call', 'e': n, 'line': ev['line']})
                continue
            for n in found:
                out.append({'ev': 'call', 'e': n, 'line': ev['line']})
            out.append(ev)
        t = b.get('term')
        if t and t.get('cond') is not None:
            found = []
            t['cond'] = _fold_string_macros(t['cond'], t['line'], found)
            for n in found:
                out.append({'ev': 'call', 'e': n, 'line': t['line']})
        b['events'] = out


_CMP_OPS = ('==', '!=', '<', '>', '<=', '>=')


def _bool_value_expr(e, memory_ok=False):
    """e (without parens / casts) if it is a comparison, possibly under `!`; else None."""
    x = e
    while isinstance(x, dict) and x.get('k') in ('paren', 'cast') and isinstance(x.get('e'), dict):
        x = x['e']
    y = x
    while isinstance(y, dict) and y.get('k') == 'un' and y.get('op') == '!':
        y = y['e']
        while isinstance(y, dict) and y.get('k') in ('paren', 'cast') and isinstance(y.get('e'), dict):
            y = y['e']
    if isinstance(y, dict) and y.get('k') == 'bin' and y.get('op') in _CMP_OPS:
        # only comparisons over locals, parameters, constants and call results: a condition over memory
        # (members, subscripts, dereferences) is left alone
        # comparisons over memory (members, subscripts, dereferences) are split as well: the diamond evaluates
        # the comparison where the assignment stands, which is exactly what the assignment does
        # (only in small functions: in a long matcher loop the extra path split multiplies the states)
        for z in walk(y):
            if not memory_ok and (z.get('k') in ('member', 'sub') or (z.get('k') == 'un' and z.get('op') == '*')):
                return None
            if z.get('k') == 'ref' and z.get('kind') not in ('local', 'param'):
                return None
        return x
    return None


def _split_bool_assigns(blocks):
    """`flag = (a < b);` is rewritten as the diamond `if (a < b) flag = 1; else flag = 0;` so that
    a condition kept in a local behaves like the branch it abbreviates (same semantics, and every
    path-sensitive rule sees the comparison as an edge)."""
    nxt = max(b['id'] for b in blocks) + 1 if blocks else 0
    small = len(blocks) <= 24
    out = list(blocks)
    work = list(blocks)
    while work:
        b = work.pop()
        for i, ev in enumerate(b['events']):
            tgt = rhs = None
            if ev['ev'] == 'assign' and ev['e'].get('op') == '=' and ev['e']['l'].get('k') == 'ref' \
                    and ev['e']['l'].get('kind') == 'local':
                tgt, rhs = ev['e']['l'], ev['e']['r']
            elif ev['ev'] == 'decl' and ev.get('init') is not None and ev['var'].get('kind') == 'local':
                tgt, rhs = ev['var'], ev['init']
            if tgt is None:
                continue
            cond = _bool_value_expr(rhs, small)
            if cond is None:
                continue
            bt, bf, bc = nxt, nxt + 1, nxt + 2
            nxt += 3
            cont = {k: v for k, v in b.items() if k not in ('id', 'events', 'case', 'label', 'label_line')}
            cont['id'] = bc
            cont['events'] = b['events'][i + 1:]
            pre = b['events'][:i]
            if ev['ev'] == 'decl':
                d0 = dict(ev)
                d0['init'] = None
                pre = pre + [d0]

            def setev(v, ev=ev, tgt=tgt):
                return {'ev': 'assign', 'line': ev['line'], 'split_bool': True,
                        'e': {'k': 'assign', 'op': '=', 'l': dict(tgt), 'r': {'k': 'int', 'v': v}}}
            b['events'] = pre
            b['succs'] = [bt, bf]
            b['term'] = {'cond': cond, 'kind': 'IfStmt', 'line': ev['line'], 'split_bool': True}
            b.pop('noreturn', None)
            tb = {'id': bt, 'events': [setev(1)], 'succs': [bc]}
            fb = {'id': bf, 'events': [setev(0)], 'succs': [bc]}
            out.extend([tb, fb, cont])
            work.append(cont)
            break
    return out


class Function:
    __slots__ = ('name', 'key', 'file', 'line', 'endline', 'static', 'ret', 'params',
                 'noreturn', 'exported', 'blocks', 'entry', 'exit', 'unit', 'variadic',
                 '_preds', '_events', '_calls')

    def __init__(self, d, unit):
        self.name = d['name']
        self.file = rel(d['file'])
        self.line = d['line']
        self.endline = d.get('endline', d['line'])
        self.static = d['static']
        self.ret = d['ret']
        self.params = d['params']
        self.noreturn = d['noreturn']
        self.exported = d.get('exported', False)
        self.variadic = d.get('variadic', False)
        self.unit = unit
        _normalise_blocks(d.get('blocks', []))
        if d.get('blocks') and not os.environ.get('VERIF_NO_BOOLSPLIT'):
            d['blocks'] = _split_bool_assigns(d['blocks'])
        self.blocks = {b['id']: b for b in d.get('blocks', [])}
        self.entry = d.get('entry')
        self.exit = d.get('exit')
        self.key = self.name + '@' + self.file if self.static else self.name
        self._preds = None
        self._events = None
        self._calls = None
        for b in self.blocks.values():
            if b.get('noreturn'):
                b['succs'] = []

    def __repr__(self):
        return '<fn %s %s:%d>' % (self.name, self.file, self.line)

    @property
    def loc(self):
        return '%s:%d' % (self.file, self.line)

    def param(self, name):
        for p in self.params:
            if p['name'] == name:
                return p
        return None

    def succs(self, bid):
        return [s for s in self.blocks[bid]['succs'] if s >= 0]

    def preds(self):
        if self._preds is None:
            p = {b: [] for b in self.blocks}
            for b in self.blocks.values():
                for s in b['succs']:
                    if s >= 0:
                        p[s].append(b['id'])
            self._preds = p
        return self._preds

    def events(self):
        """All (block id, index, event) in block order."""
        if self._events is None:
            ev = []
            for bid in sorted(self.blocks, reverse=True):
                for i, e in enumerate(self.blocks[bid]['events']):
                    ev.append((bid, i, e))
            self._events = ev
        return self._events

    def calls(self, callee=None):
        """All call events [(bid, idx, callexpr)], optionally of one callee."""
        if self._calls is None:
            self._calls = [(b, i, e['e']) for b, i, e in self.events() if e['ev'] == 'call']
        if callee is None:
            return self._calls
        if isinstance(callee, str):
            return [c for c in self._calls if c[2].get('callee') == callee]
        return [c for c in self._calls if c[2].get('callee') in callee]

    def reachable_blocks(self):
        seen = set()
        st = [self.entry]
        while st:
            b = st.pop()
            if b in seen or b is None:
                continue
            seen.add(b)
            st.extend(self.succs(b))
        return seen


def walk(e):
    """Yield every sub-expression of an expression tree (pre-order)."""
    if isinstance(e, dict):
        yield e
        for k, v in e.items():
            if k in ('t', 'name', 'callee', 'k', 'op', 'field', 'rec', 'v', 'm', 'kind'):
                continue
            if isinstance(v, (dict, list)):
                for x in walk(v):
                    yield x
    elif isinstance(e, list):
        for v in e:
            for x in walk(v):
                yield x


# ---------------------------------------------------------------------------
# transparent helpers: static functions that do not exist in the reference tree
# (engine/baseline_functions.json) are spliced into their callers' CFGs, so that
# "extract a helper" refactorings do not hide code from function-keyed rules.

SYNTH_ID = 900000000
_INLINE_OFF = 100000000


def _load_baseline():
    path = os.path.join(VERIF, 'engine', 'baseline_functions.json')
    if os.environ.get('VERIF_NO_INLINE') or not os.path.exists(path):
        return None
    with open(path) as fh:
        return json.load(fh)


def _map_expr(e, fn):
    """Deep copy of an expression tree with fn(node) -> replacement | None applied top-down."""
    if isinstance(e, dict):
        r = fn(e)
        if r is not None:
            return r
        return {k: _map_expr(v, fn) for k, v in e.items()}
    if isinstance(e, list):
        return [_map_expr(v, fn) for v in e]
    return e


def _simple_arg(a):
    k = a.get('k')
    if k in ('int', 'str'):
        return True
    if k == 'ref':
        return True
    if k == 'un' and a.get('op') == '&':
        return _simple_arg(a['e'])
    if k == 'member':
        return _simple_arg(a['base'])
    if k in ('cast', 'paren') and isinstance(a.get('e'), dict):
        return _simple_arg(a['e'])
    return False


def _event_exprs(ev):
    if ev['ev'] == 'decl':
        return [ev.get('init')] if ev.get('init') is not None else []
    return [ev['e']] if isinstance(ev.get('e'), dict) else []


def _inline_site(f, bid, idx, g, n):
    """Splice g's CFG into f at the call event f.blocks[bid].events[idx]."""
    import copy
    blk = f.blocks[bid]
    c = blk['events'][idx]['e']
    cid = c['id']
    off = n * _INLINE_OFF
    written = set()
    for b in g.blocks.values():
        for ev in b['events']:
            if ev['ev'] == 'assign' and ev['e']['l'].get('k') == 'ref':
                written.add(ev['e']['l'].get('id'))
            elif ev['ev'] == 'incdec' and ev['e']['e'].get('k') == 'ref':
                written.add(ev['e']['e'].get('id'))
            for top in _event_exprs(ev):
                for x in walk(top):
                    if x.get('k') == 'un' and x.get('op') == '&' and isinstance(x.get('e'), dict) \
                            and x['e'].get('k') == 'ref':
                        written.add(x['e'].get('id'))
        t = b.get('term')
        if t and t.get('cond') is not None:
            for x in walk(t['cond']):
                if x.get('k') == 'un' and x.get('op') == '&' and isinstance(x.get('e'), dict) \
                        and x['e'].get('k') == 'ref':
                    written.add(x['e'].get('id'))
    subst = {}
    pre = []
    for prm, a in zip(g.params, c['args']):
        if prm['id'] not in written and _simple_arg(a):
            subst[prm['id']] = a
        else:
            pre.append({'ev': 'decl', 'line': c['line'], 'init': copy.deepcopy(a),
                        'var': {'id': prm['id'] + off, 'k': 'ref', 'kind': 'local', 'name': prm['name'],
                                't': prm['t']}})
    retvar = None
    if g.ret != 'void':
        retvar = {'k': 'ref', 'kind': 'local', 'id': SYNTH_ID + n, 'name': '$ret_' + g.name, 't': g.ret}

    def m(node):
        k = node.get('k')
        if k == 'ref' and node.get('kind') in ('local', 'param') and 'id' in node:
            if node['id'] in subst:
                return copy.deepcopy(subst[node['id']])
            nn = dict(node)
            nn['id'] = node['id'] + off
            return nn
        if k == 'call' and off:
            nn = {kk: _map_expr(v, m) for kk, v in node.items()}
            nn['id'] = node['id'] + off
            return nn
        return None
    base = max(f.blocks) + 1
    cont = base + max(g.blocks) + 1

    def nb(b):
        return cont if b == g.exit else base + b
    extra = [0]
    multi_return = sum(1 for gb in g.blocks.values() for ev in gb['events'] if ev['ev'] == 'return') > 1
    for gb in g.blocks.values():
        if gb['id'] == g.exit:
            continue
        evs = []
        diamond = None
        for ev in gb['events']:
            if ev['ev'] == 'return':
                if ev.get('e') is not None and retvar is not None:
                    cond = _bool_value_expr(ev['e'], True) if multi_return else None
                    if cond is not None and ev is gb['events'][-1]:
                        # `return a == b;` of a helper with several returns: the caller branches on the comparison
                        diamond = (_map_expr(cond, m), ev['line'])
                    else:
                        evs.append({'ev': 'assign', 'line': ev['line'], 'inlined_return': g.name,
                                    'e': {'k': 'assign', 'op': '=', 'l': dict(retvar), 'r': _map_expr(ev['e'], m)}})
                continue
            ne = {kk: (_map_expr(v, m) if kk in ('e', 'init') else v) for kk, v in ev.items()}
            if ev['ev'] == 'decl':
                v = dict(ev['var'])
                v['id'] = v['id'] + off
                ne['var'] = v
            ne['inlined_from'] = g.name
            evs.append(ne)
        nblk = {'id': base + gb['id'], 'events': evs, 'succs': [nb(x) if x >= 0 else x for x in gb['succs']]}
        if gb.get('term'):
            t = dict(gb['term'])
            if t.get('cond') is not None:
                t['cond'] = _map_expr(t['cond'], m)
            nblk['term'] = t
        if gb.get('noreturn'):
            nblk['noreturn'] = True
            nblk['succs'] = []
        if diamond is not None:
            extra[0] += 2
            tb, fb = cont + extra[0] - 1, cont + extra[0]
            for bidx, val in ((tb, 1), (fb, 0)):
                f.blocks[bidx] = {'id': bidx, 'succs': [cont], 'events': [
                    {'ev': 'assign', 'line': diamond[1], 'inlined_return': g.name, 'split_bool': True,
                     'e': {'k': 'assign', 'op': '=', 'l': dict(retvar), 'r': {'k': 'int', 'v': val}}}]}
            nblk['succs'] = [tb, fb]
            nblk['term'] = {'cond': diamond[0], 'kind': 'IfStmt', 'line': diamond[1], 'split_bool': True}
        f.blocks[nblk['id']] = nblk
    cblk = {k: v for k, v in blk.items() if k not in ('id', 'events')}
    cblk['id'] = cont
    cblk['events'] = blk['events'][idx + 1:]
    f.blocks[cont] = cblk
    blk['events'] = blk['events'][:idx] + pre
    blk['succs'] = [base + g.entry]
    blk.pop('term', None)
    blk.pop('noreturn', None)
    # the value of the call expression is now the synthetic return variable

    # a helper that is a single `return <pure expression>;` is an expression macro: its value is
    # that expression (kept as a tree, the way the caller's own statement would have held it)
    rets = [ev for gb in g.blocks.values() for ev in gb['events'] if ev['ev'] == 'return']
    pure_expr = None
    if retvar is not None and len(rets) == 1 and rets[0].get('e') is not None and \
            not any(x.get('k') in ('call', 'assign') or (x.get('k') == 'un' and x.get('op') in ('++', '--'))
                    for x in walk(rets[0]['e'])):
        pure_expr = _map_expr(rets[0]['e'], m)

    def r(node):
        if node.get('k') == 'call' and node.get('id') == cid:
            if pure_expr is not None:
                return copy.deepcopy(pure_expr)
            return dict(retvar) if retvar is not None else {'k': 'int', 'v': 0}
        return None
    for b in f.blocks.values():
        if base <= b['id'] < cont:
            continue
        b['events'] = [{kk: (_map_expr(v, r) if kk in ('e', 'init') else v) for kk, v in ev.items()}
                       for ev in b['events']]
        t = b.get('term')
        if t and t.get('cond') is not None:
            t = dict(t)
            t['cond'] = _map_expr(t['cond'], r)
            b['term'] = t
    f._preds = f._events = f._calls = None


def _load_baseline_locals():
    path = os.path.join(VERIF, 'engine', 'baseline_locals.json')
    if os.environ.get('VERIF_NO_INLINE') or not os.path.exists(path):
        return None
    with open(path) as fh:
        return json.load(fh)


_RELEASING_CALLEES = {'_dbus_list_remove_link', '_dbus_list_free_link', 'free_link', 'dbus_free', '_dbus_mem_pool_dealloc',
                      '_dbus_list_unlink'}


def _propagate_new_locals(f, known):
    """Locals that do not exist in the reference tree's version of this function and are defined exactly
    once from an expression whose operands do not change afterwards are aliases / hoisted subexpressions:
    their uses are replaced by the defining expression (a call keeps its identity), so rules see the
    expression the reference tree would have written in place."""
    import copy
    decls = {}
    types = {}
    for b in f.blocks.values():
        for ev in b['events']:
            if ev['ev'] == 'decl' and ev['var'].get('kind') == 'local':
                decls[ev['var']['id']] = ev['var']['name']
                types[ev['var']['id']] = ev['var'].get('t')
    cands = {vid: nm for vid, nm in decls.items() if nm not in known and not nm.startswith('$') and vid < SYNTH_ID}
    if not cands:
        return 0
    defs = {vid: [] for vid in cands}
    bad = set()
    for bid, b in f.blocks.items():
        for i, ev in enumerate(b['events']):
            if ev['ev'] == 'decl' and ev['var']['id'] in cands and ev.get('init') is not None:
                defs[ev['var']['id']].append((bid, i, ev['init']))
            elif ev['ev'] == 'assign' and ev['e']['l'].get('k') == 'ref' and ev['e']['l'].get('id') in cands:
                if ev['e']['op'] == '=':
                    defs[ev['e']['l']['id']].append((bid, i, ev['e']['r']))
                else:
                    bad.add(ev['e']['l']['id'])
            elif ev['ev'] == 'incdec' and ev['e']['e'].get('k') == 'ref' and ev['e']['e'].get('id') in cands:
                bad.add(ev['e']['e']['id'])
            tops = _event_exprs(ev)
            for top in tops:
                for x in walk(top):
                    if x.get('k') == 'un' and x.get('op') == '&' and isinstance(x.get('e'), dict) and \
                            x['e'].get('k') == 'ref' and x['e'].get('id') in cands:
                        bad.add(x['e']['id'])
        t = b.get('term')
        if t and t.get('cond') is not None:
            for x in walk(t['cond']):
                if x.get('k') == 'un' and x.get('op') == '&' and isinstance(x.get('e'), dict) and \
                        x['e'].get('k') == 'ref' and x['e'].get('id') in cands:
                    bad.add(x['e']['id'])
    # a condition kept in a new local was rewritten into a diamond when the function was loaded:
    # its single definition is the diamond's condition
    diamonds = {}
    for vid, ds in defs.items():
        if len(ds) == 2 and all(f.blocks[b]['events'][i].get('split_bool') for b, i, _r in ds):
            heads = [hb for hb in f.blocks.values() if (hb.get('term') or {}).get('split_bool')
                     and set(hb['succs']) == {ds[0][0], ds[1][0]}]
            if len(heads) == 1:
                defs[vid] = [(heads[0]['id'], len(heads[0]['events']) - 1, heads[0]['term']['cond'])]
                diamonds[vid] = heads[0]['id']
    done = 0
    for vid, ds in defs.items():
        if vid in bad or len(ds) != 1:
            continue
        dbid, didx, rhs = ds[0]
        if any(x.get('k') == 'ref' and x.get('id') == vid for x in walk(rhs)):
            continue
        if rhs.get('k') == 'int':
            continue
        # operands must not change between the definition and any use (paths that pass the
        # definition again start afresh)
        op_ids = {x['id'] for x in walk(rhs) if x.get('k') == 'ref' and x.get('kind') in ('local', 'param') and 'id' in x}
        op_fields = {x['field'] for x in walk(rhs) if x.get('k') == 'member'}
        has_mem = any(x.get('k') in ('sub',) or (x.get('k') == 'un' and x.get('op') == '*') for x in walk(rhs))
        is_ptr_local = '*' in (types.get(vid) or '')
        # pointers the expression reads memory through: a callee given such a pointer may change what was read
        ptr_bases = set()
        for x in walk(rhs):
            bx = None
            if x.get('k') == 'member' and x.get('arrow'):
                bx = x.get('base')
            elif x.get('k') == 'sub':
                bx = x.get('base')
            elif x.get('k') == 'un' and x.get('op') == '*':
                bx = x.get('e')
            while isinstance(bx, dict) and bx.get('k') == 'member':
                bx = bx.get('base')
            if isinstance(bx, dict) and bx.get('k') == 'ref' and 'id' in bx:
                ptr_bases.add(bx['id'])

        def writes_operand(ev):
            if ev['ev'] == 'assign':
                l = ev['e']['l']
                if l.get('k') == 'ref' and l.get('id') in op_ids:
                    return True
                if l.get('k') == 'member' and l.get('field') in op_fields:
                    return True
                if has_mem and l.get('k') in ('sub', 'un'):
                    return True
            elif ev['ev'] == 'incdec':
                l = ev['e']['e']
                if l.get('k') == 'ref' and l.get('id') in op_ids:
                    return True
                if l.get('k') == 'member' and l.get('field') in op_fields:
                    return True
            elif ev['ev'] == 'call':
                for a in ev['e']['args']:
                    if a.get('k') == 'un' and a.get('op') == '&' and isinstance(a.get('e'), dict) and \
                            a['e'].get('k') == 'ref' and a['e'].get('id') in op_ids:
                        return True
                    if a.get('k') == 'ref' and a.get('id') in ptr_bases and \
                            ev['e'].get('callee') in _RELEASING_CALLEES:
                        # the object the value was read from is given away: what was read before stays what it
                        # was, the expression does not
                        return True
                    if a.get('k') == 'ref' and a.get('id') in ptr_bases and not is_ptr_local:
                        # a scalar snapshot (a saved position, a length) goes stale when a callee is given
                        # the object it was read from; an alias of a pointer field is assumed to stay valid
                        return True
            return False

        def uses_var(ev, vid=vid):
            for top in _event_exprs(ev):
                if any(x.get('k') == 'ref' and x.get('id') == vid for x in walk(top)):
                    return True
            return False

        def term_uses(blk, vid=vid):
            t = blk.get('term')
            return bool(t and t.get('cond') is not None and
                        any(x.get('k') == 'ref' and x.get('id') == vid for x in walk(t['cond'])))

        def forward(start_bid, start_idx):
            """(events after a point, blocks entered) without re-entering the defining block."""
            evs = list(f.blocks[start_bid]['events'][start_idx:])
            tu = term_uses(f.blocks[start_bid])
            seen = set()
            st = [x for x in f.blocks[start_bid]['succs'] if x >= 0]
            while st:
                x = st.pop()
                if x in seen or x == dbid:
                    continue
                seen.add(x)
                evs.extend(f.blocks[x]['events'])
                tu = tu or term_uses(f.blocks[x])
                st.extend(y for y in f.blocks[x]['succs'] if y >= 0)
            return evs, tu, seen
        unstable = False
        region_evs, _tu, region = forward(dbid, didx + 1)
        # locate each operand write and look for a use after it
        for wb in [dbid] + sorted(region):
            evl = f.blocks[wb]['events']
            lo = didx + 1 if wb == dbid else 0
            for wi in range(lo, len(evl)):
                if writes_operand(evl[wi]):
                    after, tu, _s = forward(wb, wi + 1)
                    if tu or any(uses_var(e2) for e2 in after):
                        unstable = True
                        break
            if unstable:
                break
        if unstable:
            continue

        def r(node, vid=vid, rhs=rhs):
            if node.get('k') == 'ref' and node.get('id') == vid:
                return copy.deepcopy(rhs)
            return None
        for bid, b in f.blocks.items():
            nev = []
            for i, ev in enumerate(b['events']):
                if bid == dbid and i == didx:
                    nev.append(ev)
                    continue
                if ev['ev'] == 'decl' and ev['var']['id'] == vid:
                    nev.append(ev)
                    continue
                if ev.get('split_bool') and ev['ev'] == 'assign' and ev['e']['l'].get('id') == vid:
                    nev.append(ev)
                    continue
                nev.append({kk: (_map_expr(v, r) if kk in ('e', 'init') else v) for kk, v in ev.items()})
            b['events'] = nev
            t = b.get('term')
            if t and t.get('cond') is not None:
                t = dict(t)
                t['cond'] = _map_expr(t['cond'], r)
                b['term'] = t
        if vid in diamonds:
            # every use now carries the condition itself: the diamond is dead, take it out of the graph
            hb = f.blocks[diamonds[vid]]
            arms = [f.blocks[x] for x in hb['succs']]
            hb['succs'] = list(arms[0]['succs'])
            hb.pop('term', None)
        done += 1
    if done:
        f._preds = f._events = f._calls = None
    return done


class Program:
    def __init__(self, unit_dicts, stats=None):
        self.stats = stats or {}
        self.funcs = {}          # key -> Function
        self.by_name = {}        # name -> [Function]
        self.tables = {}         # (name, file) -> table dict
        self.enums = {}
        self.records = {}
        self.macros = {}         # (name, file) -> macro dict
        self.units = []
        self.unit_static = {}    # unit -> {name: key}
        nerr = 0
        for u, d in unit_dicts:
            self.units.append(u)
            nerr += d.get('errors', 0)
            st = self.unit_static.setdefault(u, {})
            for fd in d['functions']:
                f = Function(fd, u)
                if f.static:
                    st[f.name] = f.key
                if f.key in self.funcs:
                    if self.funcs[f.key].file == f.file:
                        continue
                    # same extern name defined in two programs (daemon / helper)
                    f.key = f.name + '@' + f.file
                    if f.key in self.funcs:
                        continue
                self.funcs[f.key] = f
                self.by_name.setdefault(f.name, []).append(f)
            for t in d['tables']:
                t['file'] = rel(t['file'])
                self.tables.setdefault((t['name'], t['file']), t)
            self.enums.update(d['enums'])
            for r in d['records']:
                r['file'] = rel(r['file'])
                self.records.setdefault(r['name'], r)
            for n, m in d['macros'].items():
                m['file'] = rel(m['file'])
                self.macros.setdefault((n, m['file']), m)
        if nerr:
            raise AnalysisBroken('%d compile errors while parsing units' % nerr)
        self._callers = None
        self._callees = None
        self._addr_taken = None
        self.inlined = {}        # helper key -> [caller keys]
        self._inline_unknown_helpers()
        self.propagated = 0
        bl = _load_baseline_locals()
        if bl is not None:
            for f in self.funcs.values():
                known = bl.get(f.file, {}).get(f.name)
                if known is not None and f.blocks:
                    self.propagated += _propagate_new_locals(f, set(known))

    def _inline_unknown_helpers(self):
        base = _load_baseline()
        if base is None:
            return
        new = {k: f for k, f in self.funcs.items()
               if f.static and f.blocks and f.file in base and f.name not in base[f.file] and not f.variadic}
        if not new:
            return
        taken = set()
        for f in self.funcs.values():
            for b in f.blocks.values():
                tops = [x for ev in b['events'] for x in _event_exprs(ev)]
                if b.get('term') and b['term'].get('cond') is not None:
                    tops.append(b['term']['cond'])
                for top in tops:
                    for x in walk(top):
                        if x.get('k') == 'ref' and x.get('kind') == 'func':
                            taken.add(x.get('name'))
        for t in self.tables.values():
            for x in walk(t):
                if isinstance(x, dict) and x.get('k') == 'ref' and x.get('kind') == 'func':
                    taken.add(x.get('name'))
        new = {k: f for k, f in new.items() if f.name not in taken}

        def target(f, c):
            if c.get('callee') is None or not c.get('cstatic'):
                return None
            k = self.unit_static.get(f.unit, {}).get(c['callee'])
            g = new.get(k)
            if g is None or g is f or len(g.params) != len(c['args']):
                return None
            return g

        def is_leaf(g):
            return not any(target(g, c) is not None for b, i, c in g.calls())
        n = 0
        for rnd in range(6):
            changed = False
            for f in list(self.funcs.values()):
                while True:
                    site = None
                    for b, i, c in f.calls():
                        g = target(f, c)
                        if g is not None and is_leaf(g):
                            site = (b, i, g)
                            break
                    if site is None:
                        break
                    n += 1
                    if n > 400:
                        raise AnalysisBroken('too many helper call sites to inline')
                    _inline_site(f, site[0], site[1], site[2], n)
                    self.inlined.setdefault(site[2].key, []).append(f.key)
                    changed = True
            if not changed:
                break
        # helpers that were inlined everywhere disappear as functions of their own
        for k in list(self.inlined):
            g = self.funcs.get(k)
            if g is None:
                continue
            still = any(target(f, c) is g for f in self.funcs.values() if f is not g for b, i, c in f.calls())
            if not still:
                del self.funcs[k]
                self.by_name[g.name] = [x for x in self.by_name.get(g.name, []) if x is not g]
                if not self.by_name[g.name]:
                    del self.by_name[g.name]
                self.unit_static.get(g.unit, {}).pop(g.name, None)

    # -- lookup -------------------------------------------------------------
    def fn(self, name, file=None):
        """The unique definition of `name` (optionally in `file`)."""
        c = self.by_name.get(name, [])
        if file:
            c = [f for f in c if f.file == file]
        if len(c) == 1:
            return c[0]
        if not c:
            raise AnalysisBroken('anchor function %s%s not found' % (
                name, ' in ' + file if file else ''))
        raise AnalysisBroken('anchor function %s is ambiguous: %s' % (
            name, ', '.join(f.loc for f in c)))

    def has_fn(self, name, file=None):
        c = self.by_name.get(name, [])
        if file:
            c = [f for f in c if f.file == file]
        return len(c) >= 1

    def table(self, name, file=None):
        c = [t for (n, f), t in self.tables.items() if n == name and (file is None or f == file)]
        if len(c) == 1:
            return c[0]
        if not c:
            raise AnalysisBroken('anchor table %s not found' % name)
        raise AnalysisBroken('anchor table %s ambiguous' % name)

    def macro(self, name, file):
        m = self.macros.get((name, file))
        if m is None:
            raise AnalysisBroken('anchor macro %s not found in %s' % (name, file))
        return m

    def macro_int(self, name, depth=0):
        """Integer value of an object-like macro (follows chains of names and
        simple parenthesised / cast character or integer literals)."""
        import re
        if depth > 8:
            raise AnalysisBroken('macro %s: chain too deep' % name)
        c = [m for (n, f), m in self.macros.items() if n == name and not m.get('fnlike')]
        if not c:
            if name in self.enums:
                return self.enums[name]
            raise AnalysisBroken('anchor macro %s not found' % name)
        body = c[0]['body'].strip()
        body = re.sub(r'\(\s*(unsigned\s+)?(int|char|long)\s*\)', '', body)
        body = body.replace('(', ' ').replace(')', ' ').strip()
        m = re.fullmatch(r"'(.)'", body)
        if m:
            return ord(m.group(1))
        if body in ("'\\0'",):
            return 0
        if re.fullmatch(r'-?\d+[uUlL]*', body):
            return int(re.sub(r'[uUlL]+$', '', body))
        if re.fullmatch(r'0[xX][0-9a-fA-F]+[uUlL]*', body):
            return int(re.sub(r'[uUlL]+$', '', body), 16)
        if re.fullmatch(r'[A-Za-z_][A-Za-z0-9_]*', body):
            return self.macro_int(body, depth + 1)
        raise AnalysisBroken('macro %s has a body this evaluator does not handle: %s' % (name, body))

    def record(self, name):
        r = self.records.get(name)
        if r is None:
            raise AnalysisBroken('anchor record %s not found' % name)
        return r

    def resolve_all(self, callee_name, from_fn):
        """All candidate definitions for a direct callee name seen in from_fn."""
        st = self.unit_static.get(from_fn.unit, {})
        if callee_name in st:
            g = self.funcs.get(st[callee_name])
            return [g] if g else []
        c = [f for f in self.by_name.get(callee_name, []) if not f.static]
        if c:
            return c
        # static inline in a header, seen from another unit
        return self.by_name.get(callee_name, [])[:1]

    def resolve(self, callee_name, from_fn, cstatic=False):
        """Function object for a direct callee name seen in from_fn, or None.
        When the name is defined in two programs, the definition in the
        caller's directory-mate program is preferred."""
        c = self.resolve_all(callee_name, from_fn)
        if not c:
            return None
        if len(c) > 1:
            helper = ('bus/activation-helper.c', 'bus/activation-helper-bin.c',
                      'bus/config-parser-trivial.c')
            inhelper = from_fn.file in helper
            for g in c:
                if (g.file in helper) == inhelper:
                    return g
        return c[0]

    # -- call graph ----------------------------------------------------------
    def _build_graph(self):
        callers = {}
        callees = {}
        addr = {}
        self._global_refs = {}
        for f in self.funcs.values():
            out = set()
            gl = self._global_refs.setdefault(f.key, set())
            for bid, i, ev in f.events():
                top = ev.get('e') if ev['ev'] != 'decl' else ev.get('init')
                for x in walk(top):
                    if x.get('k') == 'call' and x.get('callee'):
                        gs = self.resolve_all(x['callee'], f)
                        if gs:
                            out.update(g.key for g in gs)
                        else:
                            out.add(x['callee'])
                    elif x.get('k') == 'ref' and x.get('kind') == 'func':
                        g = self.resolve(x['name'], f)
                        k = g.key if g else x['name']
                        addr.setdefault(k, set()).add(f.key)
                    elif x.get('k') == 'ref' and x.get('kind') in ('global', 'slocal'):
                        gl.add(x['name'])
            callees[f.key] = out
            for k in out:
                callers.setdefault(k, set()).add(f.key)
        # function references in table initialisers
        self._table_refs = {}
        self._table_funcs = {}   # table name -> set of function keys stored in it
        self._table_globals = {}  # table name -> other globals referenced
        for (n, file), t in self.tables.items():
            for x in walk(t['init']):
                if x.get('k') == 'ref' and x.get('kind') == 'func':
                    c = [f for f in self.by_name.get(x['name'], [])
                         if (not f.static) or f.file == file]
                    k = c[0].key if c else x['name']
                    self._table_refs.setdefault(k, set()).add('%s@%s' % (n, file))
                    self._table_funcs.setdefault(n, set()).add(k)
                elif x.get('k') == 'ref' and x.get('kind') == 'global':
                    self._table_globals.setdefault(n, set()).add(x['name'])
        self._callers, self._callees, self._addr_taken = callers, callees, addr

    # -- indirect calls through record fields ------------------------------------
    def field_targets(self):
        """(record, field) -> set of function keys ever stored there (table
        initialisers, designated struct initialisers, plain assignments)."""
        if hasattr(self, '_field_targets'):
            return self._field_targets
        ft = {}

        def scan_init(e, file, fn=None):
            for x in walk(e):
                if x.get('k') == 'initlist' and 'fields' in x:
                    for fld, val in x['fields'].items():
                        if isinstance(val, dict) and val.get('k') == 'ref' and val.get('kind') == 'func':
                            c = [f for f in self.by_name.get(val['name'], [])
                                 if (not f.static) or f.file == file]
                            for g in c:
                                ft.setdefault((x['rec'], fld), set()).add(g.key)
        for (n, file), t in self.tables.items():
            scan_init(t['init'], file)
        for f in self.funcs.values():
            for b, i, ev in f.events():
                if ev['ev'] == 'assign':
                    l, r = ev['e']['l'], ev['e']['r']
                    if l.get('k') == 'member' and r.get('k') == 'ref' and r.get('kind') == 'func':
                        for g in self.resolve_all(r['name'], f):
                            ft.setdefault((l.get('rec'), l['field']), set()).add(g.key)
                elif ev['ev'] == 'decl' and ev.get('init') is not None:
                    scan_init(ev['init'], f.file)
        self._field_targets = ft
        return ft

    def indirect_sites(self, fkey):
        """Indirect call sites that may invoke function fkey through a record
        field: [(Function, callexpr)]."""
        ft = self.field_targets()
        slots = {rf for rf, ks in ft.items() if fkey in ks}
        out = []
        if not slots:
            return out
        for f in self.funcs.values():
            for b, i, c in f.calls():
                if c.get('callee') is None:
                    fe = c.get('fn')
                    while fe is not None and fe.get('k') == 'un' and fe['op'] == '*':
                        fe = fe['e']
                    if fe is not None and fe.get('k') == 'member' and (fe.get('rec'), fe['field']) in slots:
                        out.append((f, c))
        return out

    def callees(self, key):
        if self._callees is None:
            self._build_graph()
        return self._callees.get(key, set())

    def callers(self, key):
        if self._callers is None:
            self._build_graph()
        return self._callers.get(key, set())

    def addr_taken(self):
        """key -> set of function keys whose body takes the address (not as the
        callee of a direct call; a direct call's callee is not a 'ref' node)."""
        if self._addr_taken is None:
            self._build_graph()
        return self._addr_taken

    def table_refs(self):
        if self._callers is None:
            self._build_graph()
        return self._table_refs

    def call_sites(self, callee_name):
        """[(Function, bid, idx, callexpr)] of all direct calls to callee_name."""
        out = []
        for f in self.funcs.values():
            for bid, i, ev in f.events():
                top = ev.get('e') if ev['ev'] != 'decl' else ev.get('init')
                if ev['ev'] == 'call':
                    c = ev['e']
                    if c.get('callee') == callee_name:
                        out.append((f, bid, i, c))
        return out

    def reachable_from(self, roots):
        """Keys of functions reachable from root keys through direct calls,
        address-taken functions of reachable bodies, and functions stored in
        file-scope tables (tables are conservatively treated as reachable)."""
        if self._callees is None:
            self._build_graph()
        seen = set()
        st = list(roots)
        addr_by_holder = {}
        for k, holders in self._addr_taken.items():
            for h in holders:
                addr_by_holder.setdefault(h, set()).add(k)
        seen_tab = set()

        def visit_table(n):
            ts = [n]
            while ts:
                t = ts.pop()
                if t in seen_tab:
                    continue
                seen_tab.add(t)
                st.extend(self._table_funcs.get(t, ()))
                ts.extend(self._table_globals.get(t, ()))
        while st:
            k = st.pop()
            if k in seen:
                continue
            seen.add(k)
            if k not in self.funcs:
                continue
            st.extend(self._callees.get(k, ()))
            st.extend(addr_by_holder.get(k, ()))
            for g in self._global_refs.get(k, ()):
                visit_table(g)
        return seen

    def production_roots(self):
        roots = []
        for f in self.funcs.values():
            if f.name == 'main' and f.file in ('bus/main.c', 'bus/activation-helper-bin.c'):
                roots.append(f.key)
            elif f.exported and f.name.startswith('dbus_') and f.file.startswith('dbus/'):
                roots.append(f.key)
        return roots

    def production(self):
        if not hasattr(self, '_prod'):
            roots = self.production_roots()
            if len(roots) < 100:
                raise AnalysisBroken('production root set too small (%d)' % len(roots))
            self._prod = self.reachable_from(roots)
        return self._prod

    def is_production(self, f):
        return f.key in self.production()


def load(units=None, variant='A'):
    res, stats = extract(units, variant)
    p = Program(res, stats)
    p.variant = variant
    return p
