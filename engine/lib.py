"""Reusable rule builders (WHO / DOM / PAIR) over the fact base."""
import os
from .cfg import (Explorer, estr, is_call, is_int, is_member, is_ref, same_expr,
                  strip_addr, walk, written_lvalues, event_expr, norm_cond, dominators)
from .facts import AnalysisBroken


def prod_funcs(prog, files=None):
    for f in prog.funcs.values():
        if not prog.is_production(f):
            continue
        if files is not None and f.file not in files:
            continue
        yield f


# ---------------------------------------------------------------------------
# WHO

_REF = {}


def reference_profile(variant):
    """name -> {'V': callees with counts, 'Wf': fields stored} of the reference tree (engine/baseline_profiles.json)"""
    if variant not in _REF:
        import json
        path = os.path.join(os.path.dirname(os.path.abspath(__file__)), 'baseline_profiles.json')
        out = {}
        try:
            with open(path) as fh:
                allb = json.load(fh)
        except OSError:
            allb = {}
        for file, fs in allb.get(variant, {}).items():
            for name, pr in fs.items():
                out.setdefault(name, {'V': {}, 'Wf': []})
                out[name]['V'].update(pr.get('V', {}))
                out[name]['Wf'] = sorted(set(out[name]['Wf']) | set(pr.get('Wf', [])))
        _REF[variant] = out
    return _REF[variant]


def absorbed_from(prog, f, allowed, op_callee=None, op_field=None):
    """Name of an allowed function W whose body f has absorbed (hand-inlining of a helper into its caller), or None:
    in the reference tree f called W, W performed the operation (called op_callee / stored op_field), and f now calls
    W less often than it did (or W is gone).  f was already a performer of the operation, through W; a who-may rule
    that admitted the pair then admits f alone now.  Anything else - a new party, or an extra operation next to a call
    of W that is still there - is not admitted."""
    ref = reference_profile(getattr(prog, 'variant', 'A'))
    mine = ref.get(f.name)
    if not mine:
        return None
    now = {}
    for b, i, c in f.calls():
        if c.get('callee'):
            now[c['callee']] = now.get(c['callee'], 0) + 1
    for w in allowed:
        n_ref = mine['V'].get(w, 0)
        if not n_ref or now.get(w, 0) >= n_ref:
            continue
        wp = ref.get(w)
        if not wp:
            continue
        if op_callee is not None and wp['V'].get(op_callee):
            return w
        if op_field is not None and op_field in wp['Wf']:
            return w
    return None


def who_calls(prog, rule, callee, allowed, files=None, why=''):
    """Every production call site of `callee` is in a function named in
    `allowed` (dict name -> reason, or set)."""
    sites = [(f, b, i, c) for (f, b, i, c) in prog.call_sites(callee) if prog.is_production(f)]
    for f, b, i, c in sites:
        if files is not None and f.file not in files:
            continue
        key = '%s<-%s' % (callee, f.name)
        if f.name not in allowed:
            w = absorbed_from(prog, f, allowed, op_callee=callee)
            if w:
                rule.ok(key, {'site': '%s:%d' % (f.file, c['line']), 'absorbed': w})
                continue
        if f.name in allowed:
            rule.ok(key, {'site': '%s:%d' % (f.file, c['line']), 'call': estr(c)[:120]})
        else:
            rule.violation(key, f.name, f.file, c['line'],
                           '%s is called from %s, which is not an allowed caller (%s). %s' % (
                               callee, f.name, ', '.join(sorted(allowed)) or 'none', why))
    return sites


def field_writes(prog, rec, field, files=None, production=True):
    """All writes to rec.field: [(Function, line, how, rhs, lhs)]."""
    out = []
    for f in prog.funcs.values():
        if production and not prog.is_production(f):
            continue
        if files is not None and f.file not in files:
            continue
        for b, i, ev in f.events():
            for lhs, how, rhs in written_lvalues(ev):
                if is_member(lhs, field, rec):
                    out.append((f, ev['line'], how, rhs, lhs))
    return out


def who_writes_field(prog, rule, rec, field, allowed, why='', value_ok=None):
    """Every production write of rec.field is in an allowed function;
    value_ok(fn, how, rhs) may further restrict what is written."""
    ws = field_writes(prog, rec, field)
    for f, line, how, rhs, lhs in ws:
        key = '%s.%s<-%s:%s' % (rec, field, f.name, how)
        if f.name not in allowed:
            w = absorbed_from(prog, f, allowed, op_field='%s.%s' % (rec, field))
            if w:
                rule.ok(key, {'site': '%s:%d' % (f.file, line), 'absorbed': w})
                continue
            rule.violation(key, f.name, f.file, line,
                           '%s.%s is written (%s) in %s, not an allowed writer (%s). %s' % (
                               rec, field, how, f.name, ', '.join(sorted(allowed)), why))
            continue
        if value_ok is not None:
            msg = value_ok(f, how, rhs)
            if msg:
                rule.violation(key, f.name, f.file, line, msg)
                continue
        rule.ok(key, {'site': '%s:%d' % (f.file, line), 'how': how,
                      'value': estr(rhs)[:80] if isinstance(rhs, dict) else None})
    return ws


def global_writes(prog, name, production=True):
    out = []
    for f in prog.funcs.values():
        if production and not prog.is_production(f):
            continue
        for b, i, ev in f.events():
            for lhs, how, rhs in written_lvalues(ev):
                if is_ref(lhs, name) and lhs.get('kind') in ('global', 'slocal'):
                    out.append((f, ev['line'], how, rhs, lhs))
    return out


# ---------------------------------------------------------------------------
# DOM: must-pass-through on the success edge

class Guard:
    def __init__(self, name, match, expect=True, untested=False):
        """match(callexpr, ctx) -> bool ; expect: truthiness of the result on the
        edge that counts as 'guard passed' ; untested: merely executing the call
        suffices (void / infallible callee)."""
        self.name = name
        self.match = match
        self.expect = expect
        self.untested = untested


def must_precede(fn, rule, sinks, guards, key_prefix='', track='auto', extra_calls=(), cap=60000,
                 sink_desc=None):
    """Every path from fn's entry to an event matching `sinks(ev, ctx)` (returns a
    label or None) has crossed every guard on its success edge.  Returns the
    number of sink sites seen."""
    gnames = set()
    id2call = {c['id']: c for b, i, c in fn.calls()}
    for g in guards:
        pass
    calls = set(extra_calls)
    # we need results of any callee matched by a guard: collect names lazily
    for b, i, c in fn.calls():
        for g in guards:
            try:
                if g.match(c, None):
                    calls.add(c.get('callee'))
            except Exception:
                pass
    sink_sites = {}
    failed = {}

    def on_event(user, ev, ctx):
        if ev['ev'] == 'call':
            c = ev['e']
            for g in guards:
                if g.match(c, ctx):
                    user = frozenset(x for x in user if x[0] != g.name) | {(g.name, c['id'])}
        label = sinks(ev, ctx)
        if label:
            site = (label, ev['line'])
            sink_sites.setdefault(site, True)
            for g in guards:
                okg = False
                for (n, cid) in user:
                    if n != g.name:
                        continue
                    if g.untested:
                        okg = True
                    else:
                        r = ctx.result_known(cid)
                        if r is not None and r == g.expect:
                            okg = True
                if not okg:
                    sink_sites[site] = False
                    ctx.report('sink %s at line %d is reachable without passing guard %s on its success edge'
                               % (label, ev['line'], g.name), ev['line'],
                               key=(label, ev['line'], g.name),
                               extra={'sink': label, 'guard': g.name})
        return user

    ex = Explorer(fn, init=frozenset(), on_event=on_event, calls=calls, track=track, cap=cap)
    ex.run()
    for (label, line), ok in sorted(sink_sites.items(), key=lambda x: x[0][1]):
        if ok:
            rule.ok('%s%s:%s' % (key_prefix, fn.name, label),
                    {'sink': '%s:%d' % (fn.file, line), 'guards': [g.name for g in guards]})
    for k, r in ex.reports.items():
        rule.violation('%s%s:%s!%s' % (key_prefix, fn.name, k[0], k[2]), fn.name, fn.file, r['line'],
                       r['reason'], r['path'])
    return len(sink_sites), ex


def call_arg_is(c, idx, pred):
    return len(c['args']) > idx and pred(c['args'][idx])


def arg_is_param(c, idx, name):
    return len(c['args']) > idx and is_ref(c['args'][idx], name)


def call_with_arg(callees, idx, argname):
    """Event matcher: a call to one of `callees` whose idx-th arg is variable argname."""
    def m(ev, ctx=None):
        if ev['ev'] != 'call':
            return None
        c = ev['e']
        if c.get('callee') in callees and arg_is_param(c, idx[c['callee']] if isinstance(idx, dict) else idx, argname):
            return c['callee']
        return None
    return m


def guard_call(name, callee, arg_idx=None, arg_name=None, expect=True, untested=False, extra=None):
    def m(c, ctx):
        if c.get('callee') != callee:
            return False
        if arg_idx is not None and not arg_is_param(c, arg_idx, arg_name):
            return False
        if extra is not None and not extra(c, ctx):
            return False
        return True
    return Guard(name, m, expect, untested)


def natural_loops(fn):
    """[(header, body blocks)] for every back edge of fn."""
    from .cfg import back_edges
    out = []
    preds = fn.preds()
    for (src, dst) in back_edges(fn):
        body = {dst}
        st = [src]
        while st:
            x = st.pop()
            if x in body:
                continue
            body.add(x)
            st.extend(preds[x])
        out.append((dst, body))
    return out


def loop_exits_only_when(fn, rule, key, header_pred, allowed, why):
    """The loop whose header block satisfies header_pred(block) is left from inside
    its body (break / goto / return) only on paths where allowed(ctx, from_bid) holds;
    leaving through the loop condition is always fine."""
    from .cfg import Explorer
    loops = [(h, b) for h, b in natural_loops(fn) if header_pred(fn.blocks[h])]
    if len(loops) != 1:
        raise AnalysisBroken('%s: expected one scan loop, found %d' % (fn.name, len(loops)))
    head, body = loops[0]
    bad = {}

    def on_transfer(user, frm, to, ctx):
        if frm in body and frm != head and to not in body:
            if not allowed(ctx, frm):
                blk = fn.blocks[frm]
                line = (blk['events'][-1]['line'] if blk['events'] else (blk.get('term') or {}).get('line'))
                bad[(frm, to)] = (line, ctx.trace())
    return head, body, bad, on_transfer


def eval_expr(c, val):
    """Evaluate a small expression tree under val(expr) -> int|None for leaves
    (val is consulted first for every node)."""
    from .cfg import is_int
    if c is None:
        return None
    v = val(c)
    if v is not None:
        return v
    k = c.get('k')
    if k == 'int':
        return c['v']
    if k == 'un' and c['op'] == '!':
        x = eval_expr(c['e'], val)
        return None if x is None else int(not x)
    if k == 'bin' and c['op'] in ('&&', '||'):
        a = eval_expr(c['l'], val)
        if a is None:
            return None
        if c['op'] == '&&' and not a:
            return 0
        if c['op'] == '||' and a:
            return 1
        b = eval_expr(c['r'], val)
        return None if b is None else int(bool(b))
    if k == 'bin' and c['op'] in ('==', '!=', '<', '>', '<=', '>=', '&', '|', '+', '-'):
        a, b = eval_expr(c['l'], val), eval_expr(c['r'], val)
        if a is None or b is None:
            return None
        return int({'==': a == b, '!=': a != b, '<': a < b, '>': a > b, '<=': a <= b, '>=': a >= b,
                    '&': a & b, '|': a | b, '+': a + b, '-': a - b}[c['op']])
    if k == 'bin' and c['op'] in ('*', '<<'):
        a, b = eval_expr(c['l'], val), eval_expr(c['r'], val)
        if a is None or b is None:
            return None
        return a * b if c['op'] == '*' else a << b
    if k in ('paren', 'cast'):
        return eval_expr(c['e'], val)
    if k == 'cond':
        t = eval_expr(c['c'], val)
        if t is None:
            return None
        return eval_expr(c['a'] if t else c['b'], val)
    if k == 'call' and c.get('callee') == '__builtin_expect':
        return eval_expr(c['args'][0], val)
    return None


def symbolic_walk(fn, start, val, stop, max_steps=400, unknown=None, env_out=None):
    """Follow the single path from block `start` that the assignment `val`
    (expr -> int|None for leaves) selects.  Local assignments of evaluable values
    are remembered.  stop(block, event|None) -> label ends the walk.  Returns
    (list of events seen, stop label).  Raises AnalysisBroken when a branch
    condition cannot be evaluated."""
    from .cfg import written_lvalues, is_ref, estr
    env = {} if env_out is None else env_out

    def v2(e):
        r = val(e)
        if r is not None:
            return r
        if is_ref(e) and e.get('id') in env:
            return env[e['id']]
        return None
    b = start
    seen = []
    for _ in range(max_steps):
        blk = fn.blocks[b]
        lab = stop(blk, None)
        if lab:
            return seen, lab
        for ev in blk['events']:
            lab = stop(blk, ev)
            if lab:
                return seen, lab
            seen.append(ev)
            for lhs, how, rhs in written_lvalues(ev):
                if is_ref(lhs) and lhs.get('kind') == 'local' and how in ('=', 'decl') and rhs is not None:
                    x = eval_expr(rhs, v2)
                    if x is not None:
                        env[lhs['id']] = x
                    else:
                        env.pop(lhs['id'], None)
                elif is_ref(lhs) and lhs.get('kind') == 'local' and how in ('|=', '&=', '+=', '-=') and rhs is not None:
                    x = eval_expr(rhs, v2)
                    if x is not None and lhs['id'] in env:
                        a = env[lhs['id']]
                        env[lhs['id']] = {'|=': a | x, '&=': a & x, '+=': a + x, '-=': a - x}[how]
                    else:
                        env.pop(lhs['id'], None)
                elif is_ref(lhs) and lhs.get('kind') == 'local' and 'id' in lhs:
                    env.pop(lhs['id'], None)
            if ev['ev'] == 'return':
                return seen, 'return'
        t = blk.get('term')
        succs = blk['succs']
        if t and t.get('cond') is not None and len(succs) == 2:
            x = eval_expr(t['cond'], v2)
            if x is None and unknown is not None:
                x = unknown(blk)
            if x is None:
                raise AnalysisBroken('%s: cannot evaluate branch condition %s at line %s' % (
                    fn.name, estr(t['cond']), t.get('line')))
            b = succs[0] if x else succs[1]
        elif len(succs) == 1:
            b = succs[0]
        elif not succs:
            return seen, 'end'
        else:
            raise AnalysisBroken('%s: unexpected block shape at block %d' % (fn.name, b))
        if b < 0:
            return seen, 'pruned'
    raise AnalysisBroken('%s: symbolic walk did not terminate' % fn.name)


def const_call_value(prog, frm, call, depth=0):
    """Value of a call whose arguments are constants, when the callee is straight enough to follow: its one path under
    those arguments is walked (locals, compound assignments) and the returned expression evaluated.  None = no verdict."""
    from .cfg import is_ref
    if call.get('k') != 'call' or not call.get('callee'):
        return None
    gs = prog.resolve_all(call['callee'], frm)
    if len(gs) != 1 or len(gs[0].params) != len(call['args']):
        return None
    g = gs[0]
    vals = [eval_expr(a, lambda e: None) for a in call['args']]
    if any(v is None for v in vals):
        return None
    env = {p['id']: v for p, v in zip(g.params, vals)}
    try:
        seen, lab = symbolic_walk(g, g.entry, lambda e: env.get(e.get('id')) if is_ref(e) and e.get('kind') == 'param' else None,
                                  lambda blk, ev: None, env_out=env)
    except AnalysisBroken:
        return None
    if lab != 'return' or not seen or seen[-1]['ev'] != 'return' or seen[-1].get('e') is None:
        return None
    return eval_expr(seen[-1]['e'], lambda e: env.get(e.get('id')) if is_ref(e) else None)


def bool_definitions(fn, name):
    """Conditions that define the boolean local `name`: [(cond expr, line)] for `name = <comparison>`,
    whether the tree writes it as a value or the engine has rewritten it as a diamond; plus a list of
    other (non-comparison) definitions [(rhs, line)]."""
    from .cfg import written_lvalues as _wl
    conds, others = [], []
    for bid, blk in fn.blocks.items():
        t = blk.get('term')
        if t and t.get('split_bool'):
            tb = fn.blocks[blk['succs'][0]]
            if tb['events'] and is_ref(tb['events'][0]['e']['l'], name):
                conds.append((t['cond'], t['line']))
        for ev in blk['events']:
            if ev.get('split_bool'):
                continue
            for lhs, how, rhs in _wl(ev):
                if is_ref(lhs, name) and rhs is not None and how in ('=', 'decl'):
                    others.append((rhs, ev['line']))
    return conds, others


def whole_string_equality(prog, rule):
    """The whole-string comparators names are recognised with (_dbus_string_equal, _dbus_string_equal_c_str)
    answer TRUE only when every byte pair was compared equal and BOTH strings are exhausted."""
    from .cfg import Explorer, is_int as _is_int, walk as _walk
    STR = 'dbus/dbus-string.c'
    for name in ('_dbus_string_equal_c_str', '_dbus_string_equal'):
        fn = prog.fn(name, STR)
        ids = {}
        for b, i, ev in fn.events():
            if ev['ev'] == 'decl' and ev['var']['name'] in ('ap', 'bp', 'a_end'):
                ids[ev['var']['name']] = ev['var']['id']
        if set(ids) != {'ap', 'bp', 'a_end'}:
            raise AnalysisBroken('%s: cursors ap / bp / a_end not found' % name)

        def akey(atom, resolve, ids=ids):
            if atom[0] == 'cmp' and atom[1] == '==':
                l, r = atom[2], atom[3]
                if is_ref(l) and is_ref(r) and {l.get('id'), r.get('id')} == {ids['ap'], ids['a_end']}:
                    return ('a-exhausted', frozenset([ids['ap']]))
                if l.get('k') == 'un' and r.get('k') == 'un' and l['op'] == '*' and r['op'] == '*' and \
                        is_ref(l['e']) and is_ref(r['e']) and {l['e'].get('id'), r['e'].get('id')} == {ids['ap'], ids['bp']}:
                    return ('bytes-equal', frozenset([ids['ap'], ids['bp']]))
                if l.get('k') == 'member' and r.get('k') == 'member' and l.get('field') == 'len' and r.get('field') == 'len':
                    return ('same-length',)
            if atom[0] == 'truthy' and atom[1].get('k') == 'un' and atom[1]['op'] == '*' and is_ref(atom[1]['e']) \
                    and atom[1]['e'].get('id') == ids['bp']:
                return ('b-not-at-nul', frozenset([ids['bp']]))
            return None
        nadv = [0]

        def on_event(user, ev, ctx, ids=ids):
            for lhs, how, rhs in written_lvalues(ev):
                if is_ref(lhs) and lhs.get('id') == ids['ap'] and how in ('++', '+='):
                    nadv[0] += 1
                    if not any(k[0] == 'bytes-equal' and v is True for k, v in ctx.atoms().items()):
                        ctx.report('the cursor advances over a byte pair that was not compared equal', ev['line'],
                                   key='uncompared')
            return user

        def on_exit(user, ctx, ret, ev, name=name, akey=akey):
            if ret is None:
                return
            cv = ctx.const_of(ret)
            if cv is not None and cv != 1:
                return
            at = dict(ctx.atoms())
            if cv is None:
                # `return <condition>;`: the answer is TRUE where the condition holds -- what the condition's own
                # conjuncts establish counts as established
                from .cfg import _forced_leaves, _is_logical
                x = ret
                while isinstance(x, dict) and x.get('k') in ('paren', 'cast'):
                    x = x['e']
                leaves = _forced_leaves(x, True, ctx.env) if _is_logical(x) else [(x, True)]
                for leaf, truth in leaves:
                    a2, s2 = norm_cond(leaf)
                    if a2 is None:
                        continue
                    k2 = akey(a2, lambda e: None)
                    if k2 is not None:
                        at[k2] = (s2 == truth)
            if not any(k[0] == 'a-exhausted' and v is True for k, v in at.items()):
                ctx.report('%s answers TRUE without the DBusString being exhausted' % name, ev['line'], key='a-left')
            if name.endswith('c_str'):
                if not any(k[0] == 'b-not-at-nul' and v is False for k, v in at.items()):
                    ctx.report('%s answers TRUE without the C string being at its terminating NUL: a proper prefix '
                               'compares equal' % name, ev['line'], key='b-left')
            else:
                if not any(k[0] == 'same-length' and v is True for k, v in at.items()):
                    ctx.report('%s answers TRUE without the lengths having been found equal' % name, ev['line'],
                               key='b-left')
        ex = Explorer(fn, on_event=on_event, on_exit=on_exit, atom_key=akey, track=None, cap=300000).run()
        if nadv[0] < 1:
            raise AnalysisBroken('%s: cursor advance not found' % name)
        if ex.reports:
            rule.from_reports(ex.reports, keyfn=lambda k, rep, name=name: '%s:%s' % (name, k))
        else:
            rule.ok('%s:whole-string' % name)


# ---------------------------------------------------------------------------
# WHO: run-time state containers live as long as their owner

import re as _re
_RELEASE = _re.compile(r'(_unref$|_free$|_clear$|^bus_clear_|_free_all$|_clear_full$|_destroy$)')

STATE_CONTAINERS = {
    # (record, field): (creating functions, destroying functions)
    ('BusActivation', 'pending_activations'): ({'bus_activation_new'}, {'bus_activation_unref'}),
    ('BusRegistry', 'service_hash'): ({'bus_registry_new'}, {'bus_registry_unref'}),
    ('BusConnections', 'completed_by_user'): ({'bus_connections_new'}, {'bus_connections_unref'}),
    ('BusConnections', 'pending_replies'): ({'bus_connections_new'}, {'bus_connections_unref'}),
    ('BusContext', 'registry'): ({'bus_context_new'}, {'bus_context_unref'}),
    ('BusContext', 'connections'): ({'bus_context_new'}, {'bus_context_unref'}),
    ('BusContext', 'matchmaker'): ({'bus_context_new'}, {'bus_context_unref'}),
    ('BusContext', 'activation'): ({'process_config_every_time'}, {'bus_context_unref'}),
}


def state_lifetime(prog, rule, keys):
    """The run-time state container rec.field is created (assigned a non-NULL value) only by its owner's
    constructor and released (handed to an *_unref / *_free / *_clear function, or reset to NULL) only by the
    owner's destructor or on the constructor's own failure path.  A configuration reload, a disconnect or any
    other operation that replaced the container would silently forget everything it holds."""
    for rec, field in keys:
        creators, destroyers = STATE_CONTAINERS[(rec, field)]
        n = 0
        for f in prod_funcs(prog):
            for b, i, ev in f.events():
                for lhs, how, rhs in written_lvalues(ev):
                    if not is_member(lhs, field, rec) or how == '&arg':
                        continue
                    n += 1
                    key = '%s.%s<-%s' % (rec, field, f.name)
                    null = rhs is not None and is_int(rhs, 0)
                    if (not null and f.name in creators) or (null and f.name in (destroyers | creators)):
                        rule.ok(key)
                    else:
                        rule.violation(key, f.name, f.file, ev['line'],
                                       '%s.%s is %s in %s; it holds run-time state and may only be created by %s and '
                                       'dropped by %s: everything it held (pending activations, name owners, '
                                       'connections, pending replies) is forgotten' % (
                                           rec, field, 'reset' if null else 'replaced', f.name,
                                           '/'.join(sorted(creators)), '/'.join(sorted(destroyers))))
            for b, i, c in f.calls():
                cal = c.get('callee') or ''
                if not _RELEASE.search(cal):
                    continue
                for a in c['args']:
                    x = strip_addr(a) or a
                    if is_member(x, field, rec):
                        n += 1
                        key = '%s.%s released-in %s' % (rec, field, f.name)
                        if f.name in destroyers | creators:
                            rule.ok(key)
                        else:
                            rule.violation(key, f.name, f.file, c['line'],
                                           '%s.%s is handed to %s in %s: the run-time state it holds is discarded '
                                           'outside the owner\'s destructor' % (rec, field, cal, f.name))
        if n == 0:
            raise AnalysisBroken('state container %s.%s: no creation site found' % (rec, field))



def shared_rule(ck, prog, rid, title, kind, breaks, floor, fn, *args):
    """Run rule function fn (written for another property) with every ck.rule() it makes redirected to one rule
    of this property: the clause is a necessary condition of both properties."""
    r = ck.rule(rid, title, kind, breaks=breaks, floor=floor)
    save = ck.rule
    ck.rule = lambda *a, **k: r
    try:
        fn(ck, prog, *args)
    finally:
        ck.rule = save
    return r


CURSOR_TESTS = {'_dbus_type_reader_get_current_type': ('_dbus_type_reader_next', '_dbus_type_reader_delete'),
                'dbus_message_iter_get_arg_type': ('dbus_message_iter_next',)}


# the cursor API's own queries: they read where the cursor is and leave it there
CURSOR_READERS = {(n, 0) for n in (
    '_dbus_type_reader_recurse', '_dbus_type_reader_read_basic', '_dbus_type_reader_get_current_type',
    '_dbus_type_reader_get_element_type', '_dbus_type_reader_read_fixed_multi', '_dbus_type_reader_get_value_pos',
    '_dbus_type_reader_read_raw', '_dbus_type_reader_get_array_length', '_dbus_type_reader_get_signature',
    '_dbus_type_reader_has_next', '_dbus_type_reader_greater_than',
    'dbus_message_iter_recurse', 'dbus_message_iter_get_basic', 'dbus_message_iter_get_arg_type',
    'dbus_message_iter_get_element_type', 'dbus_message_iter_get_fixed_array', 'dbus_message_iter_get_signature',
    'dbus_message_iter_get_element_count', 'dbus_message_iter_has_next', 'dbus_message_iter_get_array_len')}


def _may_advance(prog, frm, callee, ai, adv, depth):
    """May the callee move the cursor it receives as argument ai?  Unknown code may; code we can read does when it
    hands its parameter to an advancing call (followed two levels down)."""
    from .cfg import is_ref
    if callee is None:
        return True
    if (callee, ai) in CURSOR_READERS:
        return False
    gs = prog.resolve_all(callee, frm)
    if not gs:
        return not (callee.startswith('_dbus_type_reader_') or callee.startswith('dbus_message_iter_'))
    for g in gs:
        if ai >= len(g.params):
            return True
        pid = g.params[ai]['id']
        for b, i, c in g.calls():
            for aj, a in enumerate(c['args']):
                if is_ref(a) and a.get('id') == pid:
                    if c.get('callee') in adv and aj == 0:
                        return True
                    if depth < 2 and c.get('callee') != g.name and _may_advance(prog, g, c.get('callee'), aj, adv, depth + 1):
                        return True
        for b, i, ev in g.events():
            from .cfg import written_lvalues
            for lhs, how, rhs in written_lvalues(ev):
                if lhs.get('k') == 'un' and lhs['op'] == '*' and is_ref(lhs['e']) and lhs['e'].get('id') == pid:
                    return True
    return False


def _unmoved_cycle_feasible(f, head, body, moving):
    """Path-sensitive confirmation of a way round the loop that passes no advancing block: the explorer follows the
    function with its tracked locals and call outcomes (so `ok = step (); if (!ok) return` leaves the loop) and reports
    whether the header can be re-entered with the cursor where it was.  True when it can, or when the exploration is too
    large to refute it."""
    from .cfg import Explorer
    hit = []
    first = f.blocks[head]['events'][0] if f.blocks[head]['events'] else None
    if first is None:
        return True

    def on_event(user, ev, ctx):
        if ctx.bid == head:
            if ev is first:
                if user is False:
                    hit.append(ev['line'])
                return False
            return user
        if ctx.bid in moving and user is not None:
            return True
        return user
    try:
        ex = Explorer(f, init=None, on_event=on_event, track='auto', calls='ALL', cap=150000)
        ex.run()
    except AnalysisBroken:
        return True
    return bool(hit)


def cursor_loops_advance(prog, rule, files, floor=1):
    """Every loop that runs `while the value cursor R is not at the end` moves R on each way round: every cycle
    through the loop's header passes a call that advances R (or R is written).  A way round without the advance sees
    the same element again and again: the loop never ends."""
    from .cfg import strip_addr, written_lvalues, is_ref, estr
    alias = {}

    def cursor_key(e):
        k = raw_key(e)
        return alias.get(k, k)

    def raw_key(e):
        if e is None:
            return None
        inner = strip_addr(e)
        e = inner if inner is not None else e      # `&local` and a pointer parameter both name the cursor
        while e is not None and e.get('k') in ('paren', 'cast'):
            e = e['e']
        if e is None or 'k' not in e and 'id' not in e:
            return None
        if 'k' not in e:
            return ('id', e['id'])                 # a declaration
        return ('id', e['id']) if is_ref(e) and 'id' in e else ('expr', estr(e))
    n = 0
    for f in prog.funcs.values():
        if f.file not in files or not prog.is_production(f):
            continue
        # pointer locals that only ever hold the address of one cursor stand for that cursor
        alias.clear()
        defs = {}
        for b, i, ev in f.events():
            for lhs, how, rhs in written_lvalues(ev):
                if ('k' not in lhs or is_ref(lhs)) and lhs.get('kind') == 'local' and 'id' in lhs and how in ('=', 'decl') \
                        and rhs is not None:
                    defs.setdefault(lhs['id'], []).append(rhs)
                elif ('k' not in lhs or is_ref(lhs)) and 'id' in lhs and how not in ('decl',):
                    defs.setdefault(lhs['id'], []).append(None)
        for vid, ds in defs.items():
            if len(ds) == 1 and ds[0] is not None and strip_addr(ds[0]) is not None:
                alias[('id', vid)] = raw_key(ds[0])
        loops = {}
        for h, body in natural_loops(f):
            loops.setdefault(h, set()).update(body)
        for h, body in loops.items():
            # the loop's test: a cursor query in the header block (or in the blocks of its condition)
            test = None
            for ev in f.blocks[h]['events']:
                if ev['ev'] == 'call' and ev['e'].get('callee') in CURSOR_TESTS and ev['e']['args']:
                    test = ev['e']
            if test is None:
                continue
            cur = cursor_key(test['args'][0])
            if cur is None:
                continue
            adv = CURSOR_TESTS[test['callee']]
            moving = set()
            for b in body:
                for ev in f.blocks[b]['events']:
                    if ev['ev'] == 'call' and ev['e'].get('callee') in adv and ev['e']['args'] \
                            and cursor_key(ev['e']['args'][0]) == cur:
                        moving.add(b)
                    if ev['ev'] == 'call' and ev['e'].get('callee') not in adv and b != h:
                        for ai, a in enumerate(ev['e']['args']):
                            if cursor_key(a) == cur and cur is not None and _may_advance(prog, f, ev['e'].get('callee'), ai, adv, 0):
                                moving.add(b)
                    for lhs, how, rhs in written_lvalues(ev):
                        if cursor_key(lhs) == cur and how != '&arg' and b != h:
                            moving.add(b)
            n += 1
            key = '%s:loop@%s:%s' % (f.name, estr(test['args'][0]), test['callee'])
            # a cycle that avoids every moving block?
            seen, todo, bad = set(), [s for s in f.blocks[h]['succs'] if s in body], None
            while todo:
                b = todo.pop()
                if b is None or b in seen or b not in body or b in moving:
                    continue
                if b == h:
                    bad = True
                    break
                seen.add(b)
                todo += f.blocks[b]['succs']
            if bad:
                bad = _unmoved_cycle_feasible(f, h, body, moving)
            if bad:
                lines = sorted(ev['line'] for b in seen for ev in f.blocks[b]['events'])
                rule.violation(key, f.name, f.file, test['line'],
                               'the loop over %s can go round without advancing it (through line%s %s): it then looks at '
                               'the same element forever' % (estr(test['args'][0]), 's' if len(lines) > 1 else '',
                                                            ', '.join(map(str, lines[:6])) or '?'))
            else:
                rule.ok(key, {'advances': len(moving)})
    if n < floor:
        raise AnalysisBroken('only %d cursor loops found in %s' % (n, ', '.join(sorted(files))))
    return n


def recipient_param(fn, default='connection'):
    """Name of the parameter of a delivery helper (send_one_message) that stands for the connection the copy goes to:
    the DBusConnection parameter that is neither `sender` nor `addressed_recipient` by the role the policy gate is told
    (its 3rd and 4th arguments).  Found by role so that reordering or renaming parameters changes nothing; the rules
    then demand that the gate's proposed recipient, the descriptor test and the send all name this same parameter."""
    from .cfg import is_ref
    conns = [p['name'] for p in fn.params if 'DBusConnection' in (p.get('t') or '')]
    told = set()
    for b, i, c in fn.calls('bus_context_check_security_policy'):
        for k in (2, 3):
            if len(c['args']) > k and is_ref(c['args'][k]):
                told.add(c['args'][k]['name'])
    rest = [n for n in conns if n not in told]
    return rest[0] if len(rest) == 1 else default


def param_index_of_type(fn, tsub, default):
    idx = [i for i, p in enumerate(fn.params) if tsub in (p.get('t') or '')]
    return idx[0] if len(idx) == 1 else default


def limit_setters_only_lower(prog, rule, files, floor=2):
    """A function that stores a requested maximum (`..._set_max_...`: its numeric parameter ends up in a `max_*` field)
    may clamp the request from above and nothing else: every replacement of the parameter by a constant K lies on a
    path where `param > C` (or `>= C`) was found true for some C >= K, so the stored limit never exceeds the requested
    one.  A request of 0 stays 0."""
    from .cfg import Explorer, is_int, is_ref, written_lvalues, estr
    n = 0
    for f in prog.funcs.values():
        if f.file not in files or not prog.is_production(f) or '_set_max_' not in f.name:
            continue
        nums = {p['id']: p['name'] for p in f.params if (p.get('t') or '') in ('long', 'int', 'unsigned int', 'unsigned long', 'dbus_uint32_t')}
        stored = set()
        for b, i, ev in f.events():
            for lhs, how, rhs in written_lvalues(ev):
                if lhs.get('k') == 'member' and lhs.get('field', '').startswith('max_') and is_ref(rhs) and rhs.get('id') in nums:
                    stored.add(rhs['id'])
        if not stored:
            continue
        n += 1

        def akey(atom, resolve, stored=stored):
            if atom[0] == 'cmp' and atom[1] in ('>', '>=', '<', '<=') and is_ref(atom[2]) and atom[2].get('id') in stored \
                    and is_int(atom[3]):
                return ('cmp', atom[1], atom[2]['id'], atom[3]['v'])
            return None

        def on_event(user, ev, ctx, stored=stored, f=f):
            for lhs, how, rhs in written_lvalues(ev):
                if is_ref(lhs) and lhs.get('id') in stored and how != 'decl':
                    k = rhs.get('v') if isinstance(rhs, dict) and is_int(rhs) and how == '=' else None
                    ok = False
                    if k is not None:
                        for key, val in ctx.atoms().items():
                            if key[0] != 'cmp' or key[2] != lhs['id']:
                                continue
                            op, c = key[1], key[3]
                            # param > c (true) / param >= c (true) / param <= c (false) / param < c (false)
                            lower = (op == '>' and val is True and c >= k) or (op == '>=' and val is True and c >= k) or \
                                    (op == '<=' and val is False and c >= k) or (op == '<' and val is False and c >= k)
                            ok = ok or lower
                    if not ok:
                        ctx.report('%s replaces the requested limit %s by %s on a path where the request was not found '
                                   'to be larger: the stored limit can exceed what was asked for' % (
                                       f.name, lhs['name'], estr(rhs) if isinstance(rhs, dict) else how),
                                   ev['line'], key=('raise', ev['line']))
            return user
        ex = Explorer(f, on_event=on_event, atom_key=akey, cap=50000).run()
        key = '%s:only-lowers' % f.name
        if ex.reports:
            rule.from_reports(ex.reports, keyfn=lambda k, rep, key=key: key)
        else:
            rule.ok(key)
    if n < floor:
        raise AnalysisBroken('limit setters: only %d found' % n)
    return n


def hash_key_conversions_agree(prog, rule):
    """The typed front ends of the hash table (lookup / insert / remove ... for int and for uintptr keys) turn their key
    into the table's pointer-sized key in one and the same way: the written casts around the key agree among the
    siblings of a key kind.  A key stored under one conversion and removed under another is not found for the values
    on which the conversions differ (negative ints: sign- versus zero-extension)."""
    from .cfg import is_ref, walk, estr
    H = 'dbus/dbus-hash.c'
    n = 0
    for kind in ('int', 'uintptr'):
        convs = {}
        for f in prog.funcs.values():
            if f.file != H or not prog.is_production(f) or not f.name.startswith('_dbus_hash_table_') \
                    or not f.name.endswith('_' + kind):
                continue
            keyp = [p for p in f.params if p['name'] == 'key']
            if not keyp:
                continue
            kid = keyp[0]['id']
            for b, i, c in f.calls():
                for a in c['args']:
                    x = a
                    if is_ref(x) and x.get('id') == kid:
                        convs.setdefault(f.name, set()).add(tuple(x.get('xc') or ()))
            for b, i, ev in f.events():
                if ev['ev'] == 'assign':
                    x = ev['e']['r']
                    if isinstance(x, dict) and is_ref(x) and x.get('id') == kid:
                        convs.setdefault(f.name, set()).add(tuple(x.get('xc') or ()))
        if len(convs) < 2:
            raise AnalysisBroken('hash table front ends for %s keys not found (%d)' % (kind, len(convs)))
        allc = set()
        for v in convs.values():
            allc |= v
        for fname, v in sorted(convs.items()):
            n += 1
            key = '%s:key-conversion' % fname
            # the majority conversion is the reference
            common = max(allc, key=lambda c2: sum(1 for w in convs.values() if c2 in w))
            if v != {common}:
                f = prog.fn(fname, H)
                rule.violation(key, fname, H, f.line, '%s converts its key with the casts (%s) where its siblings use (%s): '
                               'a key stored by one is not found by the other when the conversions differ (negative '
                               'values)' % (fname, ' / '.join(', '.join(c2) or 'none' for c2 in sorted(v)),
                                            ', '.join(common) or 'none'))
            else:
                rule.ok(key, {'casts': list(common)})
    return n


def callbacks_paired_with_their_data(prog, rule, fnames):
    """A callback is called with the user data that was registered together with it: in the functions that replace a
    (function, data) registration, every call through a function taken from the object is given the data taken from the
    object, every call through a function parameter the data parameter."""
    from .cfg import is_ref, estr, is_member
    n = 0
    for fname, file in fnames:
        f = prog.fn(fname, file)
        datap = [p for p in f.params if p['name'] == 'data']
        if not datap:
            raise AnalysisBroken('%s: no data parameter' % fname)

        def src(e):
            while isinstance(e, dict) and e.get('k') in ('paren', 'cast'):
                e = e['e']
            while isinstance(e, dict) and e.get('k') == 'un' and e.get('op') == '*':
                e = e['e']
            if is_ref(e) and e.get('kind') == 'param':
                return 'param'
            if isinstance(e, dict) and e.get('k') == 'member' and is_ref(e.get('base')) and e['base'].get('kind') == 'param':
                return 'object'
            return None
        for b, i, c in f.calls():
            fe = de = None
            if c.get('callee') is None and c.get('fn') is not None and c['args']:
                fe, de = c['fn'], c['args'][-1]
            elif c.get('callee') == '_dbus_list_foreach' and len(c['args']) == 3:
                fe, de = c['args'][1], c['args'][2]
            if fe is None:
                continue
            sf, sd = src(fe), src(de)
            if sf is None or sd is None:
                continue
            n += 1
            key = '%s:%s@%d' % (fname, estr(fe)[:50], c['line'])
            if sf != sd:
                rule.violation(key, fname, file, c['line'], '%s is called with %s: the %s callback is given the %s data' % (
                    estr(fe), estr(de), 'previously registered' if sf == 'object' else 'new',
                    'new' if sd == 'param' else 'previously registered'))
            else:
                rule.ok(key)
    return n


def read_wrappers_keep_buffer(prog, rule, files=('dbus/dbus-sysdeps-unix.c',)):
    """The functions that read from a descriptor into the end of a DBusString grow the string once, read into the new
    space, and on every way out set the length to what was really read: (a) on every path there is at most one
    `_dbus_string_lengthen` of the buffer (a retry after EINTR must not grow it again), (b) after the buffer was grown
    every exit has passed `_dbus_string_set_length` on it."""
    from .cfg import Explorer, is_ref
    n = 0
    for f in prog.funcs.values():
        if f.file not in files or not prog.is_production(f):
            continue
        bufs = {p['id'] for p in f.params if 'DBusString' in (p.get('t') or '')}
        grow = {c['id'] for b, i, c in f.calls('_dbus_string_lengthen')
                if c['args'] and is_ref(c['args'][0]) and c['args'][0].get('id') in bufs}
        reads = [c for b, i, c in f.calls() if c.get('callee') in ('read', 'recvmsg', 'recv')]
        if not grow or not reads:
            continue
        setl = {c['id'] for b, i, c in f.calls('_dbus_string_set_length')
                if c['args'] and is_ref(c['args'][0]) and c['args'][0].get('id') in bufs}
        n += 1

        def on_event(user, ev, ctx, grow=grow, setl=setl, f=f):
            grown, trimmed = user
            if ev['ev'] == 'call':
                cid = ev['e'].get('id')
                if cid in grow:
                    if grown >= 1:
                        ctx.report('%s grows the buffer a second time on one path (a retried read starts from a buffer '
                                   'that already holds the first attempt\'s space): stale bytes stay in the stream' % f.name,
                                   ev['line'], key=('grown-twice', ev['line']))
                    return (min(grown + 1, 2), False)
                if cid in setl:
                    return (grown, True)
            return user

        def on_exit(user, ctx, ret, ev, grow=grow, f=f):
            grown, trimmed = user
            if grown and not trimmed and not any(ctx.result_known(g) is False for g in grow):
                ctx.report('%s can return with the buffer still grown by the requested count, not cut back to what was '
                           'read: bytes nobody sent become part of the stream' % f.name, ev['line'] if ev else f.line,
                           key=('not-trimmed', ev['line'] if ev else 0))
        ex = Explorer(f, init=(0, False), on_event=on_event, on_exit=on_exit, calls={'_dbus_string_lengthen'},
                      track='auto', cap=300000).run()
        key = '%s:buffer-discipline' % f.name
        if ex.reports:
            rule.from_reports(ex.reports, keyfn=lambda k, rep, f=f: '%s:%s' % (f.name, k[0]))
        else:
            rule.ok(key)
    if n < (2 if getattr(prog, 'variant', 'A') == 'A' else 1):     # without SCM_RIGHTS support only _dbus_read is one
        raise AnalysisBroken('read wrappers that grow a string buffer: only %d found' % n)
    return n


def clocks_named(prog, rule):
    """_dbus_get_real_time reads the wall clock, _dbus_get_monotonic_time the monotonic clock."""
    from .cfg import is_int
    U = 'dbus/dbus-sysdeps-unix.c'
    for fname, want, other in (('_dbus_get_real_time', 'CLOCK_REALTIME', 'CLOCK_MONOTONIC'),
                               ('_dbus_get_monotonic_time', 'CLOCK_MONOTONIC', 'CLOCK_REALTIME')):
        f = prog.fn(fname, U)
        ids = []
        for b, i, c in f.calls('clock_gettime'):
            if c['args'] and is_int(c['args'][0]):
                ids.append(c['args'][0].get('name') or str(c['args'][0]['v']))
        wall = [c for b, i, c in f.calls('gettimeofday')]
        key = '%s:clock' % fname
        if other in ids or (fname == '_dbus_get_real_time' and not wall and want not in ids) or \
                (fname == '_dbus_get_monotonic_time' and ids and want not in ids):
            rule.violation(key, fname, U, f.line, '%s reads %s' % (fname, ', '.join(ids) or 'no clock'))
        else:
            rule.ok(key, {'clock_gettime': ids, 'gettimeofday': len(wall)})


def range_compare_covers_range(prog, rule):
    """_dbus_string_equal_substring compares exactly the `a_len` bytes it was asked about: its end pointer is the start
    cursor plus the length (plus k) and the loop runs while the cursor !=/< end (k must be 0) or <= end (k must be -1)."""
    from .cfg import is_ref, written_lvalues, estr, norm_cond
    S = 'dbus/dbus-string.c'
    fn = prog.fn('_dbus_string_equal_substring', S)
    lenp = [p for p in fn.params if p['name'] == 'a_len'] or [p for p in fn.params if (p.get('t') or '') == 'int'][1:2]
    if not lenp:
        raise AnalysisBroken('_dbus_string_equal_substring: length parameter not found')
    lenid = lenp[0]['id']

    def lin(e, sign=1, acc=None):
        acc = {} if acc is None else acc
        while isinstance(e, dict) and e.get('k') in ('paren', 'cast'):
            e = e['e']
        if isinstance(e, dict) and e.get('k') == 'int':
            acc['#'] = acc.get('#', 0) + sign * e['v']
        elif isinstance(e, dict) and e.get('k') == 'bin' and e['op'] in ('+', '-'):
            lin(e['l'], sign, acc)
            lin(e['r'], sign if e['op'] == '+' else -sign, acc)
        elif isinstance(e, dict) and is_ref(e) and 'id' in e:
            acc[e['id']] = acc.get(e['id'], 0) + sign
        else:
            acc['?' + estr(e)] = acc.get('?' + estr(e), 0) + sign
        return acc
    # the loop: header condition compares two pointer locals
    loops = [(h, b) for h, b in natural_loops(fn)]
    found = None
    for h, body in loops:
        t = fn.blocks[h].get('term')
        if not t or not isinstance(t.get('cond'), dict):
            continue
        c = t['cond']
        while c.get('k') in ('paren', 'cast'):
            c = c['e']
        if c.get('k') == 'bin' and c['op'] in ('!=', '<', '<=') and is_ref(c['l']) and is_ref(c['r']):
            found = (c['l'], c['op'], c['r'], t.get('line'))
    if not found:
        raise AnalysisBroken('_dbus_string_equal_substring: comparison loop not found')
    cur, op, end, line = found
    defs = [rhs for b, i, ev in fn.events() for lhs, how, rhs in written_lvalues(ev)
            if (is_ref(lhs) or 'k' not in lhs) and lhs.get('id') == end['id'] and how in ('=', 'decl') and rhs is not None]
    key = '_dbus_string_equal_substring:compares-a_len-bytes'
    if len(defs) != 1:
        raise AnalysisBroken('_dbus_string_equal_substring: end pointer has %d definitions' % len(defs))
    form = lin(defs[0])
    k = form.pop('#', 0)
    ok_shape = form == {cur['id']: 1, lenid: 1}
    n_iter_off = k + (1 if op == '<=' else 0)
    if not ok_shape or n_iter_off != 0:
        rule.violation(key, fn.name, S, line, 'the loop runs while %s %s %s with %s = %s: it compares %s bytes, not a_len' % (
            cur['name'], op, end['name'], end['name'], estr(defs[0]),
            ('a_len%+d' % n_iter_off) if ok_shape else 'an unrecognised number of'))
    else:
        rule.ok(key)
