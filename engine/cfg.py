"""CFG algorithms over extracted facts: expression helpers, condition
normalisation, and a path-sensitive explorer (worklist over (block, state))
that the DOM / PAIR / TS rules are written on top of."""
from .facts import AnalysisBroken, walk

# ---------------------------------------------------------------------------
# expression helpers


def estr(e):
    """Readable, canonical spelling of an expression tree."""
    if e is None:
        return '<none>'
    k = e.get('k')
    if k == 'int':
        return str(e.get('name') or e['v'])
    if k == 'str':
        return '"%s"' % e['v']
    if k == 'ref':
        return e['name']
    if k == 'member':
        return estr(e['base']) + ('->' if e.get('arrow') else '.') + e['field']
    if k == 'call':
        return '%s(%s)' % (e.get('callee') or ('(*%s)' % estr(e.get('fn'))),
                           ', '.join(estr(a) for a in e['args']))
    if k == 'un':
        return e['op'] + estr(e['e'])
    if k == 'incdec':
        return (e['op'] + estr(e['e'])) if e.get('prefix') else (estr(e['e']) + e['op'])
    if k in ('bin', 'assign'):
        return '(%s %s %s)' % (estr(e['l']), e['op'], estr(e['r']))
    if k == 'cond':
        return '(%s ? %s : %s)' % (estr(e['c']), estr(e['a']), estr(e['b']))
    if k == 'sub':
        return '%s[%s]' % (estr(e['base']), estr(e['idx']))
    if k == 'initlist':
        return '{...}'
    return '<%s>' % k


def is_int(e, v=None):
    return e is not None and e.get('k') == 'int' and (v is None or e['v'] == v)


def is_ref(e, name=None, kind=None):
    return (e is not None and e.get('k') == 'ref' and (name is None or e['name'] == name)
            and (kind is None or e.get('kind') == kind))


def is_call(e, callee=None):
    if e is None or e.get('k') != 'call':
        return False
    if callee is None:
        return True
    if isinstance(callee, str):
        return e.get('callee') == callee
    return e.get('callee') in callee


def is_member(e, field=None, rec=None):
    return (e is not None and e.get('k') == 'member' and (field is None or e['field'] == field)
            and (rec is None or e.get('rec') == rec))


def strip_addr(e):
    if e is not None and e.get('k') == 'un' and e['op'] == '&':
        return e['e']
    return None


def same_expr(a, b):
    """Structural equality of access paths / expressions (ignores ids of calls)."""
    if a is None or b is None:
        return a is b
    if a.get('k') != b.get('k'):
        return False
    k = a['k']
    if k == 'int':
        return a['v'] == b['v']
    if k == 'str':
        return a['v'] == b['v']
    if k == 'ref':
        if 'id' in a and 'id' in b:
            return a['id'] == b['id']
        return a['name'] == b['name']
    if k == 'member':
        return a['field'] == b['field'] and a.get('rec') == b.get('rec') and same_expr(a['base'], b['base'])
    if k == 'call':
        return (a.get('callee') == b.get('callee') and len(a['args']) == len(b['args'])
                and all(same_expr(x, y) for x, y in zip(a['args'], b['args'])))
    if k in ('un', 'incdec'):
        return a['op'] == b['op'] and same_expr(a['e'], b['e'])
    if k in ('bin', 'assign'):
        return a['op'] == b['op'] and same_expr(a['l'], b['l']) and same_expr(a['r'], b['r'])
    if k == 'sub':
        return same_expr(a['base'], b['base']) and same_expr(a['idx'], b['idx'])
    if k == 'cond':
        return same_expr(a['c'], b['c']) and same_expr(a['a'], b['a']) and same_expr(a['b'], b['b'])
    return False


def contains(e, pred):
    for x in walk(e):
        if pred(x):
            return True
    return False


def event_expr(ev):
    return ev.get('init') if ev['ev'] == 'decl' else ev.get('e')


def written_lvalues(ev):
    """Access paths written by an event: [(lhs expr, how, rhs expr or None)].
    how in {'=', '+=', ..., '++', '--', 'decl', '&arg'} ; '&arg' = address passed
    to a callee (potential write through an out-parameter)."""
    out = []
    k = ev['ev']
    e = ev.get('e')
    if k == 'assign':
        out.append((e['l'], e['op'], e['r']))
    elif k == 'incdec':
        out.append((e['e'], e['op'], None))
    elif k == 'decl':
        out.append((ev['var'], 'decl', ev.get('init')))
    elif k == 'call':
        for i, a in enumerate(e['args']):
            inner = strip_addr(a)
            if inner is not None:
                out.append((inner, '&arg', e))
    return out


# ---------------------------------------------------------------------------
# condition normalisation

NEG = {'==': '!=', '!=': '==', '<': '>=', '>=': '<', '>': '<=', '<=': '>'}
SWAP = {'==': '==', '!=': '!=', '<': '>', '>': '<', '<=': '>=', '>=': '<='}


def norm_cond(c):
    """Return (atom, sense): the branch's TRUE edge is taken iff atom holds ==
    sense.  atom is ('truthy', e) | ('cmp', op, l, r) with op in == < <=
    (after normalisation != -> ==/False, > -> <=/False, >= -> </False)."""
    sense = True
    while True:
        if c is None:
            return None, True
        k = c.get('k')
        if k == 'un' and c['op'] == '!':
            sense = not sense
            c = c['e']
            continue
        if k == 'call' and c.get('callee') == '__builtin_expect':
            c = c['args'][0]
            continue
        if k == 'bin' and c['op'] in ('==', '!='):
            l, r = c['l'], c['r']
            if is_int(l) and not is_int(r):
                l, r = r, l
            if is_int(r, 0):
                if c['op'] == '==':
                    sense = not sense
                c = l
                continue
            if c['op'] == '!=':
                sense = not sense
            return ('cmp', '==', l, r), sense
        if k == 'bin' and c['op'] in ('<', '>', '<=', '>='):
            op, l, r = c['op'], c['l'], c['r']
            if op == '>':
                return ('cmp', '<=', l, r), not sense
            if op == '>=':
                return ('cmp', '<', l, r), not sense
            return ('cmp', op, l, r), sense
        return ('truthy', c), sense


def _is_logical(e):
    while isinstance(e, dict) and e.get('k') in ('paren', 'cast') and isinstance(e.get('e'), dict):
        e = e['e']
    if not isinstance(e, dict):
        return False
    if e.get('k') == 'bin' and e.get('op') in ('&&', '||'):
        return True
    if e.get('k') == 'un' and e.get('op') == '!':
        return _is_logical(e['e'])
    return False


def _forced_leaves(e, truth, env=None):
    """[(operand, its truth)] forced by the whole expression having the given truth: all conjuncts of a true
    conjunction, all disjuncts of a false disjunction (through `!` and parentheses); and, with the outcomes of the
    operands already evaluated on this path (env), the remaining operand of a false conjunction whose other side
    held / of a true disjunction whose other side failed."""
    while isinstance(e, dict) and e.get('k') in ('paren', 'cast') and isinstance(e.get('e'), dict):
        e = e['e']
    if not isinstance(e, dict):
        return []
    if e.get('k') == 'un' and e.get('op') == '!':
        return _forced_leaves(e['e'], not truth, env)
    if e.get('k') == 'bin' and e.get('op') in ('&&', '||'):
        conj = e['op'] == '&&'
        if truth == conj:
            return _forced_leaves(e['l'], truth, env) + _forced_leaves(e['r'], truth, env)
        if env is not None:
            a, b = _eval_logical(e['l'], env), _eval_logical(e['r'], env)
            neutral = 1 if conj else 0
            if a == neutral and b is None:
                return _forced_leaves(e['r'], truth, env)
            if b == neutral and a is None:
                return _forced_leaves(e['l'], truth, env)
        return []
    return [(e, truth)]


def _eval_logical(e, env):
    """Truth (0/1) of a short-circuit expression whose operands were just evaluated on this path: the outcome of
    every operand branch is in env as ('lc', spelling).  None when an operand that matters is unknown."""
    while isinstance(e, dict) and e.get('k') in ('paren', 'cast') and isinstance(e.get('e'), dict):
        e = e['e']
    if not isinstance(e, dict):
        return None
    if e.get('k') == 'int':
        return int(e['v'] != 0)
    v = env.get(('lc', estr(e)))
    if isinstance(v, bool):
        return int(v)
    if e.get('k') == 'un' and e.get('op') == '!':
        x = _eval_logical(e['e'], env)
        return None if x is None else int(not x)
    if e.get('k') == 'bin' and e.get('op') in ('&&', '||'):
        a = _eval_logical(e['l'], env)
        if a is not None:
            if e['op'] == '&&' and not a:
                return 0
            if e['op'] == '||' and a:
                return 1
        b = _eval_logical(e['r'], env)
        if a is None or b is None:
            if b is not None and ((e['op'] == '&&' and not b) or (e['op'] == '||' and b)):
                return int(b)
            return None
        return int(b)
    return None


def _reduce_logical(e, env):
    """Like _eval_logical, but may also return the single operand expression the value still depends on
    (('leaf', expr)) when every other operand that matters is known.  Returns 0/1, ('leaf', expr) or None."""
    while isinstance(e, dict) and e.get('k') in ('paren', 'cast') and isinstance(e.get('e'), dict):
        e = e['e']
    if not isinstance(e, dict):
        return None
    if e.get('k') == 'int':
        return int(e['v'] != 0)
    v = env.get(('lc', estr(e)))
    if isinstance(v, bool):
        return int(v)
    if e.get('k') == 'bin' and e.get('op') in ('&&', '||'):
        a = _reduce_logical(e['l'], env)
        b = _reduce_logical(e['r'], env)
        absorbing = 0 if e['op'] == '&&' else 1
        if a == absorbing or b == absorbing:
            return absorbing if a == absorbing or isinstance(a, int) else None
        if a == (1 - absorbing):
            return b
        if b == (1 - absorbing):
            return a
        return None
    if e.get('k') == 'un' and e.get('op') == '!':
        x = _reduce_logical(e['e'], env)
        if isinstance(x, int):
            return int(not x)
        return None
    return ('leaf', e)


# ---------------------------------------------------------------------------
# explorer

INFEASIBLE = object()


class Trace:
    __slots__ = ('steps',)


class Ctx:
    """What rule callbacks see at an event / edge."""

    def __init__(self, ex):
        self.ex = ex
        self.fn = ex.fn
        self.env = None
        self.node = None
        self.bid = None

    # env: dict key -> value.  keys: ('v', declid) ; ('res', callid) ; ('atom', key)
    def var(self, e):
        if is_ref(e) and 'id' in e:
            return self.env.get(('v', e['id']))
        return None

    def origin_call(self, e):
        """If e is a call, or a tracked variable currently bound to the result of
        a call (or written as out-param by it), return (call id, how)."""
        if e is None:
            return None
        if e.get('k') == 'call':
            return (e['id'], 'result')
        v = self.var(e)
        if v and v[0] == 'call':
            return (v[1], 'result')
        if v and v[0] == 'out':
            return (v[1], 'out')
        return None

    def result_known(self, callid):
        """True / False when the path has tested call's result, else None."""
        return self.env.get(('res', callid))

    def const_of(self, e):
        if is_int(e):
            return e['v']
        v = self.var(e)
        if v and v[0] == 'c':
            return v[1]
        if _is_logical(e):
            return _eval_logical(e, self.env)
        return None

    def truth_of(self, e):
        """Known truthiness of expression e on this path: True/False/None."""
        a, s = norm_cond(e)
        return self.ex._eval_atom(a, s, self.env)

    def ret_status(self, ret):
        """'fail' / 'ok' / 'unknown' for a returned boolean-or-pointer expression:
        constant, or a tracked variable / call whose outcome this path has tested."""
        if ret is None:
            return 'ok'
        v = self.const_of(ret)
        if v is not None:
            return 'fail' if v == 0 else 'ok'
        vv = self.var(ret)
        if vv and vv[0] == 'nz':
            return 'ok'
        o = self.origin_call(ret)
        if o is not None and o[1] == 'result':
            k = self.result_known(o[0])
            if k is True:
                return 'ok'
            if k is False:
                return 'fail'
        if vv and vv[0] == 'ncall':
            k = self.result_known(vv[1])
            if k is True:
                return 'fail'
            if k is False:
                return 'ok'
        return 'unknown'

    def atom(self, key):
        return self.env.get(('atom', key))

    def atoms(self):
        return {k[1]: v for k, v in self.env.items() if k[0] == 'atom'}

    def resolve_call(self, e):
        return self.ex.resolve_call(e, self.env)

    def report(self, msg, line=None, key=None, extra=None):
        self.ex._report(self, msg, line, key, extra)

    def trace(self):
        return self.ex._trace(self.node)


class Explorer:
    def __init__(self, fn, init=None, on_event=None, on_edge=None, on_exit=None,
                 calls=None, track=None, atom_key=None, cap=60000, entry_env=None, pure=(),
                 on_transfer=None):
        """
        fn        Function
        init      initial user state (hashable)
        on_event  (user, ev, ctx) -> user
        on_edge   (user, bid, idx, atom, sense, ctx) -> user | INFEASIBLE
        on_exit   (user, ctx, retexpr)  called at each 'return' event and at a
                  fall-off-the-end exit (retexpr None)
        calls     set of callee names whose tested results are remembered as
                  path facts (None = none; 'ALL' = all)
        track     'auto' | set of local names to track | None
        atom_key  atom -> hashable key|None: remember outcome of such conditions
        """
        self.fn = fn
        self.init = init
        self.on_event = on_event
        self.on_edge = on_edge
        self.on_exit = on_exit
        self.calls = calls
        self.atom_key = atom_key
        self.cap = cap
        self.entry_env = entry_env or {}
        self.pure = set(pure)
        self.on_transfer = on_transfer   # (user, from_bid, to_bid, ctx): every CFG edge taken
        self.reports = {}
        self.nstates = 0
        self.nedges = 0
        self.call_names = {}
        self.id2call = {}
        for b, i, c in fn.calls():
            self.call_names[c['id']] = c.get('callee')
            self.id2call[c['id']] = c
        # nested calls (arguments) appear as their own events, so fn.calls() has all
        self.tracked = self._select_tracked(track)

    def _select_tracked(self, track):
        fn = self.fn
        addr = set()
        assigned_other = set()
        cands = {}
        for b, i, ev in fn.events():
            top = event_expr(ev)
            for x in walk(top):
                if x.get('k') == 'un' and x['op'] == '&' and is_ref(x['e']) and 'id' in x['e']:
                    addr.add(x['e']['id'])
            if ev['ev'] == 'decl':
                v = ev['var']
                if v['kind'] == 'local':
                    cands[v['id']] = v['name']
            for x in walk(top):
                if is_ref(x) and x.get('kind') in ('local', 'param') and 'id' in x:
                    cands.setdefault(x['id'], x['name'])
        for p in fn.params:
            cands.setdefault(p['id'], p['name'])
        synth = {i: n for i, n in cands.items() if i >= 900000000}     # inlined helpers' return values
        if track is None:
            return synth
        if track == 'auto':
            used = set(synth)
            for b, i, ev in fn.events():
                if ev['ev'] == 'assign' and is_ref(ev['e']['l']) and ev['e']['l'].get('id', 0) >= 900000000:
                    for x in walk(ev['e']['r']):
                        if is_ref(x) and 'id' in x:
                            used.add(x['id'])
            for b in fn.blocks.values():
                t = b.get('term')
                if t and t.get('cond') is not None:
                    for x in walk(t['cond']):
                        if is_ref(x) and 'id' in x:
                            used.add(x['id'])
            for b, i, ev in fn.events():
                if ev['ev'] == 'return' and ev.get('e') is not None:
                    for x in walk(ev['e']):
                        if is_ref(x) and 'id' in x:
                            used.add(x['id'])
            return {i: n for i, n in cands.items() if i in used}
        out = {i: n for i, n in cands.items() if n in track}
        out.update(synth)
        return out

    # -- env ----------------------------------------------------------------
    def _abstract(self, rhs, env):
        if rhs is None:
            return ('undef',)
        k = rhs.get('k')
        if k == 'int':
            return ('c', rhs['v'])
        if k == 'call':
            return ('call', rhs['id'])
        if k == 'ref' and 'id' in rhs and rhs['id'] in self.tracked:
            return env.get(('v', rhs['id']), ('?',))
        if k == 'str':
            return ('nz', rhs.get('v'))        # a string literal: non-NULL, and we remember which
        if k == 'un' and rhs['op'] == '&':
            return ('nz',)
        if k == 'un' and rhs['op'] == '!':
            inner = self._abstract(rhs['e'], env)
            if inner[0] == 'call':
                return ('ncall', inner[1])
            if inner[0] == 'ncall':
                return ('call', inner[1])
            if inner[0] == 'c':
                return ('c', 0 if inner[1] else 1)
            if inner[0] == 'nz':
                return ('c', 0)
            return ('?',)
        if k in ('paren', 'cast') and isinstance(rhs.get('e'), dict):
            return self._abstract(rhs['e'], env)
        if _is_logical(rhs):
            v = _eval_logical(rhs, env)
            if v is not None:
                return ('c', v)
            red = _reduce_logical(rhs, env)
            if isinstance(red, tuple):
                a, sense = norm_cond(red[1])
                if a is not None and a[0] == 'truthy' and a[1].get('k') == 'call':
                    return ('call', a[1]['id']) if sense else ('ncall', a[1]['id'])
        return ('?',)

    def _apply_event(self, ev, env):
        """Generic env transfer. Returns new env dict (copy on write)."""
        k = ev['ev']
        new = None

        def setv(key, val):
            nonlocal new
            if new is None:
                new = dict(env)
            if val is None:
                new.pop(key, None)
            else:
                new[key] = val
        if k == 'call':
            c = ev['e']
            cid = c['id']
            # a new dynamic instance of this call: forget the old outcome
            if ('res', cid) in env:
                setv(('res', cid), None)
            cur = new if new is not None else env
            for key, val in list(cur.items()):
                if key[0] == 'v' and val[0] in ('call', 'out', 'ncall') and val[1] == cid:
                    setv(key, ('?',))
            for a in c['args']:
                inner = strip_addr(a)
                if inner is not None and is_ref(inner) and inner.get('id') in self.tracked:
                    setv(('v', inner['id']), ('out', cid))
            if self.atom_key is not None:
                # calls may change anything reachable: rule-specific atoms are
                # invalidated by the rule itself through on_event if needed
                pass
        elif k == 'assign':
            e = ev['e']
            l = e['l']
            if is_ref(l) and l.get('id') in self.tracked:
                if e['op'] == '=':
                    setv(('v', l['id']), self._abstract(e['r'], new if new is not None else env))
                else:
                    setv(('v', l['id']), ('?',))
        elif k == 'incdec':
            l = ev['e']['e']
            if is_ref(l) and l.get('id') in self.tracked:
                setv(('v', l['id']), ('?',))
        elif k == 'decl':
            v = ev['var']
            if v['id'] in self.tracked:
                setv(('v', v['id']), self._abstract(ev.get('init'), env))
        if self.atom_key is not None:
            wr = set()
            for lhs, how, rhs in written_lvalues(ev):
                if is_ref(lhs) and 'id' in lhs and how != 'decl':
                    wr.add(lhs['id'])
            if wr:
                cur = new if new is not None else env
                for key in list(cur):
                    if key[0] == 'atom' and isinstance(key[1], tuple) and key[1] \
                            and isinstance(key[1][-1], frozenset) and (key[1][-1] & wr):
                        setv(key, None)
        return new if new is not None else env

    def _eval_atom(self, atom, sense, env):
        """Known truth of (atom == sense)?  True/False/None."""
        if atom is None:
            return None
        if atom[0] == 'truthy':
            e = atom[1]
            if is_int(e):
                return (e['v'] != 0) == sense
            if e.get('k') == 'str':
                return sense
            if e.get('k') == 'call':
                r = env.get(('res', e['id']))
                if r is None or not isinstance(r, bool):
                    return None
                return r == sense
            if is_ref(e) and e.get('id') in self.tracked:
                v = env.get(('v', e['id']))
                if v is None:
                    return None
                if v[0] == 'c':
                    return (v[1] != 0) == sense
                if v[0] == 'nz':
                    return sense
                if v[0] in ('call', 'out'):
                    r = env.get(('res', v[1]))
                    if isinstance(r, bool) and v[0] == 'call':
                        return r == sense
                if v[0] == 'ncall':
                    r = env.get(('res', v[1]))
                    if isinstance(r, bool):
                        return (not r) == sense
            return None
        if atom[0] == 'cmp' and atom[1] == '==':
            l, r = atom[2], atom[3]
            lv = self._const(l, env)
            rv = self._const(r, env)
            if lv is not None and rv is not None:
                return (lv == rv) == sense
            return None
        if atom[0] == 'cmp':
            lv = self._const(atom[2], env)
            rv = self._const(atom[3], env)
            if lv is not None and rv is not None:
                res = lv < rv if atom[1] == '<' else lv <= rv
                return res == sense
        return None

    def _const(self, e, env):
        if is_int(e):
            return e['v']
        if is_ref(e) and e.get('id') in self.tracked:
            v = env.get(('v', e['id']))
            if v and v[0] == 'c':
                return v[1]
        return None

    def _refine(self, atom, sense, env):
        """Env on the edge where (atom == sense).  None if infeasible."""
        known = self._eval_atom(atom, sense, env)
        if known is False:
            return None
        if atom is None:
            return env
        akey = None
        if self.atom_key is not None:
            akey = self.atom_key(atom, lambda e: self.resolve_call(e, env))
            if akey is not None:
                prev = env.get(('atom', akey))
                # the same condition was decided earlier on this path and nothing it
                # mentions was written since (facts are dropped on such writes)
                if isinstance(prev, bool) and prev != sense and isinstance(akey, tuple) \
                        and akey and isinstance(akey[-1], frozenset):
                    return None
        new = dict(env)
        if atom[0] == 'truthy' and self.pure:
            pc = self.resolve_call(atom[1], env)
            if pc is not None and pc.get('callee') in self.pure:
                pk = ('pure', pc['callee'], ','.join(estr(a) for a in pc['args']))
                prev = env.get(pk)
                if isinstance(prev, bool) and prev != sense:
                    return None
                new[pk] = sense
        if atom[0] == 'truthy':
            e = atom[1]
            if e.get('k') == 'call':
                if self._want_call(e):
                    new[('res', e['id'])] = sense
            elif is_ref(e) and e.get('id') in self.tracked:
                v = env.get(('v', e['id']))
                if v and v[0] == 'call':
                    # the variable is tracked, so the outcome of the call it holds is
                    # remembered even if the callee is not in `calls`
                    new[('res', v[1])] = sense
                elif v and v[0] == 'ncall':
                    new[('res', v[1])] = not sense
                elif v is None or v[0] in ('?', 'undef', 'out'):
                    new[('v', e['id'])] = ('nz',) if sense else ('c', 0)
        elif atom[0] == 'cmp' and atom[1] == '==':
            l, r = atom[2], atom[3]
            if is_ref(l) and l.get('id') in self.tracked and is_int(r):
                v = env.get(('v', l['id']))
                if v and v[0] == 'call' and self._want_callid(v[1]):
                    new[('res', v[1])] = ('eq' if sense else 'ne', r['v'])
                elif sense and (v is None or v[0] in ('?', 'undef', 'out', 'nz')):
                    new[('v', l['id'])] = ('c', r['v'])
            elif l.get('k') == 'call' and is_int(r) and self._want_call(l):
                new[('res', l['id'])] = ('eq' if sense else 'ne', r['v'])
        if akey is not None:
            new[('atom', akey)] = sense
        return new

    def resolve_call(self, e, env):
        """The call expression that e denotes on this path: e itself if it is a
        call, or the call a tracked variable is currently bound to."""
        if e is None:
            return None
        if e.get('k') == 'call':
            return e
        if is_ref(e) and e.get('id') in self.tracked:
            v = env.get(('v', e['id']))
            if v and v[0] == 'call':
                return self.id2call.get(v[1])
        return None

    def _want_call(self, c):
        if self.calls is None:
            return False
        if self.calls == 'ALL':
            return True
        return c.get('callee') in self.calls

    def _want_callid(self, cid):
        if self.calls is None:
            return False
        if self.calls == 'ALL':
            return True
        return self.call_names.get(cid) in self.calls

    # -- main loop ------------------------------------------------------------
    def run(self):
        fn = self.fn
        if fn.entry is None:
            raise AnalysisBroken('no CFG for %s' % fn.name)
        env0 = dict(self.entry_env)
        start = (fn.entry, self.init, self._freeze(env0))
        self.parent = {start: None}
        work = [start]
        ctx = Ctx(self)
        while work:
            node = work.pop()
            bid, user, fenv = node
            env = dict(fenv)
            self.nstates += 1
            if self.nstates > self.cap:
                raise AnalysisBroken('state cap exceeded in %s (%d states)' % (fn.name, self.cap))
            blk = fn.blocks[bid]
            ctx.node = node
            ctx.bid = bid
            returned = False
            for ev in blk['events']:
                ctx.env = env
                if self.on_event is not None:
                    user = self.on_event(user, ev, ctx)
                if ev['ev'] == 'return':
                    returned = True
                    if self.on_exit is not None:
                        ctx.env = env
                        self.on_exit(user, ctx, ev.get('e'), ev)
                env = self._apply_event(ev, env)
                if ev['ev'] in ('assign', 'decl', 'return', 'incdec') and any(k[0] == 'lc' for k in env):
                    # operand outcomes are only meaningful up to the statement that consumes the expression ...
                    t2 = blk.get('term')
                    rhs2 = ev['e'].get('r') if ev['ev'] == 'assign' else ev.get('init') if ev['ev'] == 'decl' else None
                    if ev is blk['events'][-1] and t2 and isinstance(t2.get('cond'), dict) and isinstance(rhs2, dict) \
                            and _is_logical(rhs2) and estr(t2['cond']) == estr(rhs2):
                        pass        # ... which the branch right after it tests again (`b = x && y; if (b)`)
                    else:
                        env = {k: v for k, v in env.items() if k[0] != 'lc'}
            succs = blk['succs']
            term = blk.get('term')
            if bid == fn.exit:
                continue
            if not succs:
                continue
            if succs == [fn.exit] and not returned and not blk.get('noreturn'):
                # falling off the end of a void function
                if self.on_exit is not None and fn.ret == 'void':
                    ctx.env = env
                    self.on_exit(user, ctx, None, None)
            kind = term.get('kind') if term else None
            if term is not None and kind == 'SwitchStmt':
                self._switch_edges(node, blk, user, env, work, ctx)
                continue
            if len(succs) == 2 and term is not None and term.get('cond') is not None:
                atom, sense = norm_cond(term['cond'])
                shortcut = kind == 'BinaryOperator'
                decided = None
                forced = None
                if not shortcut and _is_logical(term['cond']):
                    forced = {True: _forced_leaves(term['cond'], True, env), False: _forced_leaves(term['cond'], False, env)}
                if not shortcut and any(k[0] == 'lc' for k in env):
                    if _is_logical(term['cond']):
                        decided = _eval_logical(term['cond'], env)
                    env = {k: v for k, v in env.items() if k[0] != 'lc'}     # the condition has been consumed
                for idx, s in enumerate(succs):
                    if s < 0:
                        continue
                    if decided is not None and (idx == 0) != bool(decided):
                        continue
                    edge_sense = sense if idx == 0 else (not sense)
                    env2 = self._refine(atom, edge_sense, env)
                    if env2 is None:
                        continue
                    if not shortcut and _is_logical(term['cond']):
                        # a compound condition tested as a whole (it was kept in a local first): on the edge where a
                        # conjunction held every conjunct held, where a disjunction failed every disjunct failed
                        for leaf, lsense in (forced or {}).get(idx == 0, []):
                            a2, s2 = norm_cond(leaf)
                            env2 = self._refine(a2, s2 == lsense, env2)
                            if env2 is None:
                                break
                        if env2 is None:
                            continue
                    if shortcut:
                        env2 = dict(env2)
                        env2[('lc', estr(term['cond']))] = (idx == 0)
                    u2 = user
                    if self.on_edge is not None:
                        ctx.env = env2
                        u2 = self.on_edge(user, bid, idx, atom, edge_sense, ctx)
                        if u2 is INFEASIBLE:
                            continue
                    if s == fn.exit and fn.ret == 'void' and self.on_exit is not None and not returned:
                        # `if (c) stmt;` as the last statement of a void function: the other edge leaves the function
                        ctx.env = env2
                        self.on_exit(u2, ctx, None, None)
                    self._push(node, s, u2, env2, work)
                continue
            for s in succs:
                if s >= 0:
                    self._push(node, s, user, env, work)
        return self

    def _switch_edges(self, node, blk, user, env, work, ctx):
        fn = self.fn
        cond = blk['term'].get('cond')
        cv = self._const(cond, env) if cond is not None else None
        cases = []
        default = None
        for s in blk['succs']:
            if s < 0:
                continue
            sb = fn.blocks[s]
            if 'case' in sb and sb['case']:
                cases.append((s, sb['case'][0], sb['case'][1]))
            else:
                default = s
        if cv is not None:
            hit = [s for s, lo, hi in cases if lo <= cv <= hi]
            tgt = hit[:1] if hit else ([default] if default is not None else [])
            for s in tgt:
                self._push(node, s, user, env, work)
            return
        for s, lo, hi in cases:
            env2 = env
            if cond is not None and is_ref(cond) and cond.get('id') in self.tracked and lo == hi:
                env2 = dict(env)
                env2[('v', cond['id'])] = ('c', lo)
            u2 = user
            if self.on_edge is not None:
                ctx.env = env2
                u2 = self.on_edge(user, blk['id'], ('case', lo, hi), ('switch', cond), True, ctx)
                if u2 is INFEASIBLE:
                    continue
            self._push(node, s, u2, env2, work)
        if default is not None:
            u2 = user
            if self.on_edge is not None:
                ctx.env = env
                u2 = self.on_edge(user, blk['id'], ('default',), ('switch', cond), True, ctx)
                if u2 is INFEASIBLE:
                    return
            self._push(node, default, u2, env, work)

    @staticmethod
    def _freeze(env):
        return tuple(sorted(env.items(), key=repr))

    def _push(self, parent, bid, user, env, work):
        if self.on_transfer is not None:
            c = Ctx(self)
            c.env = env
            c.node = parent
            c.bid = parent[0]
            self.on_transfer(user, parent[0], bid, c)
        node = (bid, user, self._freeze(env))
        self.nedges += 1
        if node in self.parent:
            return
        self.parent[node] = parent
        work.append(node)

    def _trace(self, node):
        out = []
        fn = self.fn
        while node is not None:
            bid = node[0]
            blk = fn.blocks[bid]
            lines = [ev['line'] for ev in blk['events']]
            t = blk.get('term')
            ent = {'block': bid}
            if lines:
                ent['lines'] = [min(lines), max(lines)]
            elif t:
                ent['lines'] = [t['line'], t['line']]
            if 'label' in blk:
                ent['label'] = blk['label']
            out.append(ent)
            node = self.parent.get(node)
        out.reverse()
        return out

    def _report(self, ctx, msg, line, key, extra):
        k = key if key is not None else (msg, line)
        if k in self.reports:
            return
        r = {'function': self.fn.name, 'file': self.fn.file, 'line': line, 'reason': msg,
             'path': self._trace(ctx.node)}
        if extra:
            r.update(extra)
        self.reports[k] = r


# ---------------------------------------------------------------------------
# classical helpers

def dominators(fn):
    """Block-level dominator sets (iterative)."""
    blocks = fn.reachable_blocks()
    preds = fn.preds()
    dom = {b: set(blocks) for b in blocks}
    dom[fn.entry] = {fn.entry}
    changed = True
    order = sorted(blocks, reverse=True)
    while changed:
        changed = False
        for b in order:
            if b == fn.entry:
                continue
            ps = [p for p in preds[b] if p in blocks]
            if not ps:
                continue
            new = set.intersection(*(dom[p] for p in ps)) | {b}
            if new != dom[b]:
                dom[b] = new
                changed = True
    return dom


def reach_from(fn, starts, stop=None):
    """Blocks reachable from the given start blocks (inclusive)."""
    seen = set()
    st = list(starts)
    while st:
        b = st.pop()
        if b in seen or b < 0:
            continue
        if stop and b in stop:
            continue
        seen.add(b)
        st.extend(fn.succs(b))
    return seen


def back_edges(fn):
    dom = dominators(fn)
    out = []
    for b in dom:
        for s in fn.succs(b):
            if s in dom.get(b, ()):
                out.append((b, s))
    return out
