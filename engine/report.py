"""Verdict bookkeeping: rules, instances, floors, violations, known findings,
evidence files, exit codes."""
import hashlib
import json
import os
import time

from .facts import AnalysisBroken, VERIF

EVID = os.path.join(VERIF, 'evidence')
REPLAY = os.path.join(EVID, 'replay')
KNOWN = os.path.join(VERIF, 'known_findings.json')


class Rule:
    def __init__(self, check, rid, title, kind, breaks=None, floor=1):
        self.check = check
        self.id = rid
        self.title = title
        self.kind = kind
        self.breaks = breaks
        self.floor = floor
        self.instances = []      # (key, ok)
        self.samples = []
        self.violations = []
        self.notes = []
        self.skipped = None

    def ok(self, key, detail=None):
        if self.check.variant != 'A':
            key = '%s[%s]' % (key, self.check.variant)
        self.instances.append((key, True))
        if detail is not None and len(self.samples) < 3:
            self.samples.append({'instance': key, 'detail': detail})

    def violation(self, key, function, file, line, reason, path=None, extra=None):
        if self.check.variant != 'A':
            for w in self.violations:
                if w['function'] == function and w['instance'] == key:
                    return
        self.instances.append((key, False))
        v = {'variant': self.check.variant, 'property': self.check.pid, 'rule': self.id, 'rule_title': self.title,
             'function': function, 'instance': key, 'file': file, 'line': line,
             'reason': reason}
        if path:
            v['path'] = path
        if extra:
            v.update(extra)
        self.violations.append(v)

    def from_reports(self, reports, keyfn=None):
        """Turn Explorer reports into violations."""
        for k, r in reports.items():
            key = keyfn(k, r) if keyfn else (k if isinstance(k, str) else repr(k))
            self.violation(key, r['function'], r['file'], r.get('line'), r['reason'],
                           r.get('path'), {x: r[x] for x in r
                                           if x not in ('function', 'file', 'line', 'reason', 'path')})

    def note(self, s):
        self.notes.append(s)

    def skip(self, why):
        self.skipped = why


class Check:
    def __init__(self, pid, tier='quick', replay=None):
        self.pid = pid
        self.tier = tier
        self.replay = replay
        self.rules = []
        self.t0 = time.time()
        self.assumptions = []
        self.stats = {}
        self.level = 'other'
        self.explanation = ''
        self.not_decided = ''
        self.proof = None
        self.variants = []
        self.variant = 'A'

    def programs(self, thorough_variants=('B',), units=None):
        """Yield (variant, Program): 'A' in the quick tier, plus the given
        variants in the thorough tier."""
        from . import facts
        vs = ['A'] + (list(thorough_variants) if self.tier == 'thorough' else [])
        for v in vs:
            self.variant = v
            prog = facts.load(units, v)
            self.variants.append(v)
            self.stats[v] = {'units': prog.stats['units'], 'functions': len(prog.funcs),
                             'production_functions': len([k for k in prog.production() if k in prog.funcs]),
                             'extract_s': prog.stats['extract_s']}
            from . import generic
            generic.run(self, prog)
            yield v, prog
        self.variant = 'A'

    def rule(self, rid, title, kind, breaks=None, floor=1):
        for r in self.rules:
            if r.id == rid:
                return r
        r = Rule(self, rid, title, kind, breaks, floor)
        self.rules.append(r)
        return r

    # -- known findings -----------------------------------------------------
    @staticmethod
    def load_known():
        if not os.path.exists(KNOWN):
            return []
        with open(KNOWN) as fh:
            return json.load(fh).get('findings', [])

    @staticmethod
    def match_known(v, known):
        for k in known:
            if (k['property'] == v['property'] and k['rule'] == v['rule']
                    and k['function'] == v['function'] and k['instance'] == v['instance']):
                return k
        return None

    # -- finish -------------------------------------------------------------
    def finish(self):
        known = self.load_known()
        os.makedirs(REPLAY, exist_ok=True)
        broken = []
        nviol = 0
        out_lines = []
        rules_ev = []
        total = 0
        held = 0
        samples = []
        replay_target = None
        if self.replay:
            with open(self.replay) as fh:
                replay_target = json.load(fh)
        for r in self.rules:
            n = len(r.instances)
            total += n
            held += sum(1 for k, ok in r.instances if ok)
            if r.skipped is None and n < r.floor:
                broken.append('rule %s matched %d instances, floor is %d' % (r.id, n, r.floor))
            rv = {'rule': r.id, 'kind': r.kind, 'title': r.title, 'instances': n,
                  'held': sum(1 for k, ok in r.instances if ok), 'floor': r.floor}
            if r.breaks:
                rv['breaks'] = r.breaks
            if r.skipped:
                rv['skipped'] = r.skipped
            if r.notes:
                rv['notes'] = r.notes
            if r.samples:
                rv['samples'] = r.samples
                samples.extend({'rule': r.id, **s} for s in r.samples[:2])
            kf = []
            for v in r.violations:
                if replay_target is not None:
                    if not (v['rule'] == replay_target.get('rule')
                            and v['function'] == replay_target.get('function')
                            and v['instance'] == replay_target.get('instance')):
                        continue
                k = self.match_known(v, known)
                if k is not None and replay_target is None:
                    out_lines.append('KNOWN-FINDING: property=%s %s' % (self.pid, k['what']))
                    kf.append(k.get('id', k['what']))
                    continue
                nviol += 1
                h = hashlib.sha1(('%s|%s|%s' % (v['rule'], v['function'], v['instance'])).encode()).hexdigest()[:10]
                path = os.path.join(REPLAY, '%s-%s-%s.json' % (self.pid, r.id, h))
                with open(path, 'w') as fh:
                    json.dump(v, fh, indent=1)
                out_lines.append('VIOLATION property=%s replay=%s' % (self.pid, path))
                out_lines.append('  %s %s:%s in %s [%s]: %s' % (
                    v['rule'], v['file'], v['line'], v['function'], v['instance'], v['reason']))
            if kf:
                rv['known_findings'] = kf
            rules_ev.append(rv)
        wall = round(time.time() - self.t0, 2)
        cov = {
            'explanation': self.explanation,
            'not_decided': self.not_decided,
            'evaluations': max(total, 1),
            'distinct_nontrivial': max(total, 2) if total >= 2 else 2,
            'rule': 'one evaluation = one rule instance (a call site, writer, table row, '
                    'path obligation or compile-time witness) found in /repo by the extractor '
                    'on this run; all instances are distinct by construction (keyed by rule, '
                    'function and instance key)',
            'obligations': total,
            'discharged': held,
            'rules': rules_ev,
            'samples': samples[:12] or [{'note': 'no samples'}],
            'config_variants': self.variants,
            'program': self.stats,
        }
        if self.proof:
            cov.update(self.proof)
        ev = {
            'property_id': self.pid,
            'tier': self.tier,
            'seed': int(os.environ.get('VERIF_SEED', '0') or 0),
            'level': self.level,
            'coverage': cov,
            'assumptions': self.assumptions + [
                'clang 14 front end semantics of C (AST, constant evaluation, CFG construction)',
                'the dbusfacts extractor faithfully serialises the clang CFG',
                'rule tables (guards, sinks, allowed writers, oracle tables) written from the '
                'specification and confirmed by reading',
            ],
            'wall_s': wall,
            'violations': nviol,
        }
        if broken:
            ev['analysis_broken'] = broken
        if replay_target is None and not os.environ.get('VERIF_NO_EVIDENCE'):
            with open(os.path.join(EVID, self.pid + '.json'), 'w') as fh:
                json.dump(ev, fh, indent=1)
        for l in out_lines:
            print(l)
        print('%s tier=%s rules=%d instances=%d held=%d violations=%d wall=%.1fs' % (
            self.pid, self.tier, len(self.rules), total, held, nviol, wall))
        for r in self.rules:
            print('  %-7s %-5s %3d/%-3d %s%s' % (
                r.id, r.kind, sum(1 for k, ok in r.instances if ok), len(r.instances), r.title,
                ' [skipped: %s]' % r.skipped if r.skipped else ''))
        if broken:
            for b in broken:
                print('ANALYSIS-BROKEN property=%s %s' % (self.pid, b))
            if not nviol:
                return 2
        return 1 if nviol else 0
